#!/bin/bash
# check.sh <property> <quick|thorough>     run the check for one property
# check.sh replay <file>                    replay a recorded violation
# check.sh selftest [prop]                  determinism proof of the simulator
# check.sh setup                            build the tools / warm the caches
#
# Every invocation rebuilds an instrumented scratch copy of /repo's CURRENT
# working tree (never a snapshot) outside /repo and /verif and removes it on
# every exit path. Exit: 0 held on everything explored, 1 violation(s) with
# VIOLATION lines, 2 trouble with the machinery or the build (never a verdict).
set -u
VERIF=$(cd "$(dirname "$0")" && pwd)
REPO=${VERIF_REPO:-/repo}
export GOFLAGS=-mod=mod GOPROXY=off GOSUMDB=off GOTOOLCHAIN=local GONOSUMDB='*' GONOSUMCHECK=1 GOFLAGS=-mod=mod
GO=${VERIF_GO:-go1.26.8}
SEED=${VERIF_SEED:-1}
BASE=${VERIF_SCRATCH:-/var/tmp}
mkdir -p "$BASE" 2>/dev/null || BASE=/tmp

die() { echo "check.sh: $*" >&2; exit 2; }

mode=${1:-}
[ -n "$mode" ] || die "usage: check.sh <C12|C17|C18> <quick|thorough> | replay <file> | selftest [prop] | setup"

build_tools() {
  mkdir -p "$VERIF/bin"
  if [ ! -x "$VERIF/bin/vsim-instrument" ] || [ "$VERIF/cmd/vsim-instrument/main.go" -nt "$VERIF/bin/vsim-instrument" ]; then
    (cd "$VERIF" && $GO build -o "$VERIF/bin/vsim-instrument" ./cmd/vsim-instrument) || die "building the instrumenter failed"
  fi
}

if [ "$mode" = setup ]; then
  build_tools
  # warm the standard-library caches (plain and -race) with a throw-away build
  S=$(mktemp -d "$BASE/vsim.XXXXXX") || die "mktemp"
  trap 'rm -rf "$S"' EXIT
  printf 'package main\nimport (_ "math/big"; _ "encoding/json"; _ "fmt"; _ "os/exec"; _ "sort"; _ "hash/fnv"; _ "math/rand/v2"; _ "flag"; _ "sync")\nfunc main(){}\n' > "$S/main.go"
  printf 'module warm\ngo 1.25\n' > "$S/go.mod"
  (cd "$S" && $GO build -o "$S/warm" . && $GO build -race -o "$S/warm-race" .) || die "warming the build cache failed"
  echo "setup ok"
  exit 0
fi

build_tools
S=$(mktemp -d "$BASE/vsim.XXXXXX") || die "mktemp"
trap 'rm -rf "$S"' EXIT
export TMPDIR="$S/tmp"
mkdir -p "$S/lib" "$S/decimal" "$S/meta" "$S/tmp"

# --- scratch copies: /repo's current working tree (all packages, no tests) and the dependency ---
(cd "$REPO" && find . -name .git -prune -o -type f -name '*.go' ! -name '*_test.go' -print | while read -r f; do
   mkdir -p "$S/lib/$(dirname "$f")" && cp "$f" "$S/lib/$f" || exit 1
 done) || die "copying $REPO failed"
cp "$REPO/go.mod" "$S/lib/go.mod" || die "copy go.mod"
DEPVER=$(awk '$1=="github.com/govalues/decimal"{print $2}' "$REPO/go.mod" | head -1)
[ -n "$DEPVER" ] || DEPVER=v0.1.36
MODCACHE=$($GO env GOMODCACHE)
DEPSRC="$MODCACHE/github.com/govalues/decimal@$DEPVER"
[ -d "$DEPSRC" ] || die "dependency source $DEPSRC not in the module cache"
for f in "$DEPSRC"/*.go; do
  case "$f" in *_test.go) ;; *) cp "$f" "$S/decimal/" || die "copy $f";; esac
done
cp "$DEPSRC/go.mod" "$S/decimal/go.mod"
chmod -R u+w "$S"

"$VERIF/bin/vsim-instrument" -dir "$S/lib" -out "$S/meta" -name lib -base 1 || die "instrumenting the library copy failed"
# further packages of the repository (none today): each gets its own range of site ids
n=0
(cd "$S/lib" && find . -mindepth 1 -type d | sort) | while read -r d; do
  ls "$S/lib/$d"/*.go >/dev/null 2>&1 || continue
  n=$((n+1)); [ $n -le 15 ] || die "too many packages"
  "$VERIF/bin/vsim-instrument" -dir "$S/lib/$d" -out "$S/meta" -name "lib$n" -base $((n*60000)) || exit 2
done || die "instrumenting a sub-package of the library copy failed"
"$VERIF/bin/vsim-instrument" -dir "$S/decimal" -out "$S/meta" -name dep -base 1048576 || die "instrumenting the dependency copy failed"
printf '\nrequire vsimrt v0.0.0\nreplace vsimrt => %s/vsimrt\nreplace github.com/govalues/decimal => %s/decimal\n' "$VERIF" "$S" >> "$S/lib/go.mod"
printf '\nrequire vsimrt v0.0.0\nreplace vsimrt => %s/vsimrt\n' "$VERIF" >> "$S/decimal/go.mod"

# --- generated modfile for the harness ---
cat > "$S/harness.mod" <<EOF
module verif

go 1.25

require (
	github.com/bolom009/go-clipper2 v0.0.0
	github.com/govalues/decimal $DEPVER
	vsimrt v0.0.0
)

replace github.com/bolom009/go-clipper2 => $S/lib
replace github.com/govalues/decimal => $S/decimal
replace vsimrt => $VERIF/vsimrt
EOF
cp "$REPO/go.sum" "$S/harness.sum" 2>/dev/null || : > "$S/harness.sum"
cp "$REPO/go.sum" "$S/lib/go.sum" 2>/dev/null || true

build_vsim() { # $1 = race|plain
  local flags=""
  [ "$1" = race ] && flags="-race"
  (cd "$VERIF" && $GO build $flags -modfile="$S/harness.mod" -o "$S/vsim-$1" ./cmd/vsim) >"$S/build.log" 2>&1 || {
    cat "$S/build.log" >&2
    die "building the harness against the instrumented copy of $REPO failed (this is a build problem, not a verdict)"
  }
}

run_prop() { # prop tier
  local prop=$1 tier=$2 bin=plain
  [ "$prop" = C18 ] && bin=race
  build_vsim $bin
  local evidence="$VERIF/evidence/$prop.json"
  # a run against another tree than /repo (a seeded change in a scratch
  # worktree) must not overwrite the evidence of the real tree
  [ "$REPO" = /repo ] || evidence="$BASE/vsim-evidence-other-tree-$prop.json"
  "$S/vsim-$bin" run -prop "$prop" -tier "$tier" -seed "$SEED" \
     -evidence "$evidence" -replays "$VERIF/replays" \
     -findings "$VERIF/known_findings.json" -meta "$S/meta" ${VERIF_RUNS:+-runs $VERIF_RUNS} ${VERIF_CAP:+-cap $VERIF_CAP}
  return $?
}

case "$mode" in
  C12|C17|C18)
    tier=${2:-${VERIF_TIER:-quick}}
    run_prop "$mode" "$tier"
    exit $?
    ;;
  replay)
    file=${2:-}
    [ -f "$file" ] || die "replay file '$file' not found"
    prop=$(sed -n 's/.*"property": *"\(C[0-9]*\)".*/\1/p' "$file" | head -1)
    bin=plain; [ "$prop" = C18 ] && bin=race
    build_vsim $bin
    "$S/vsim-$bin" replay -file "$file"
    exit $?
    ;;
  selftest)
    prop=${2:-C18}
    bin=plain; [ "$prop" = C18 ] && bin=race
    build_vsim $bin
    "$S/vsim-$bin" selftest -prop "$prop" -seed "$SEED" -runs "${VERIF_RUNS:-64}"
    exit $?
    ;;
  shell)
    # debugging aid: build both binaries and keep the scratch directory until the shell exits
    build_vsim plain; build_vsim race
    echo "scratch: $S"; (cd "$S" && ${SHELL:-bash})
    exit 0
    ;;
  *)
    die "unknown mode '$mode'"
    ;;
esac
