#!/bin/bash
# benigncheck.sh <dir with patch.diff> <id>: a property-PRESERVING change must not raise any alarm in any check
SRC=$1; ID=$2
W=/var/tmp/bw-$ID
rm -rf $W; git -C /repo worktree add -q --detach $W || exit 2
trap 'git -C /repo worktree remove --force $W >/dev/null 2>&1' EXIT
cd $W && git apply "$SRC/patch.diff" || { echo "[$ID] patch does not apply"; exit 2; }
GOFLAGS=-mod=mod GOPROXY=off go test -vet=off -count=1 ./... >/dev/null 2>&1; suite=$?
cd /verif
res=""
for p in C12 C17 C18; do
  VERIF_REPO=$W ./check.sh $p quick > /var/tmp/benign-$ID-$p.log 2>&1; rc=$?
  res="$res $p=$rc"
  grep -E "^VIOLATION|^  key=|HARNESS|SIM-STALL|check.sh:|vsim-instrument" /var/tmp/benign-$ID-$p.log | head -8
done
echo "[$ID] suite=$suite checks:$res"
mkdir -p /verif/seeded/benign-$ID; [ "$SRC" -ef /verif/seeded/benign-$ID ] || { cp "$SRC/patch.diff" /verif/seeded/benign-$ID/; [ -f "$SRC/notes.md" ] && cp "$SRC/notes.md" /verif/seeded/benign-$ID/; }
python3 - "$ID" "$suite" "$res" <<'PY'
import json,sys
ID,suite,res=sys.argv[1:4]
checks=dict(x.split('=') for x in res.split())
json.dump({"id":"benign-"+ID,"kind":"property-preserving change (must NOT be reported)","existing_suite_passes_with_patch":suite=="0",
 "check_exit_codes":{k:int(v) for k,v in checks.items()},"false_alarm":any(v!="0" for v in checks.values()),
 "command":"tools/benigncheck.sh (applies patch.diff in a scratch worktree, VERIF_REPO=<worktree> ./check.sh <prop> quick for C12, C17, C18)"},
 open(f"/verif/seeded/benign-{ID}/meta.json","w"),indent=1)
PY
