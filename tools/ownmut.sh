#!/bin/bash
# ownmut.sh <id> <prop> <file> <python-snippet transforming s>  : one-line source mutation in a scratch worktree, then the quick check
ID=$1; PROP=$2; FILE=$3; PY=$4; RUNS=${5:-16000}
W=/var/tmp/om-$ID
rm -rf $W; git -C /repo worktree add -q --detach $W || exit 2
trap 'git -C /repo worktree remove --force $W >/dev/null 2>&1' EXIT
cd $W && python3 - "$FILE" "$PY" <<'P' || { echo "[$ID] edit failed"; exit 2; }
import sys
f,py=sys.argv[1],sys.argv[2]
s=open(f).read(); o=s
exec(py)
assert s!=o, "no change"
open(f,'w').write(s)
P
GOFLAGS=-mod=mod GOPROXY=off go test -vet=off -count=1 ./... >/dev/null 2>&1; suite=$?
cd /verif && VERIF_REPO=$W VERIF_RUNS=$RUNS ./check.sh $PROP quick > /var/tmp/om-$ID.log 2>&1; rc=$?
echo "[$ID] suite=$suite check($PROP)=$rc $(grep -c '^VIOLATION' /var/tmp/om-$ID.log) violations: $(grep '^  key=' /var/tmp/om-$ID.log | head -3 | tr '\n' ' ')"
