#!/bin/bash
# seedcheck.sh <src-dir with patch.diff, demo_test.go, notes.md> <seeded id> <property> [demo go-test flags]
# Confirms a seeded change in a scratch worktree (applies, existing tests pass, demonstration fails with it and
# passes without it), runs the property's quick check against it, and files it under /verif/seeded/<id>/.
set -u
SRC=$1; ID=$2; PROP=$3; DEMOFLAGS=${4:-}
W=/var/tmp/sw-$ID
export GOFLAGS=-mod=mod GOPROXY=off
rm -rf "$W"; git -C /repo worktree add -q --detach "$W" || exit 2
trap 'git -C /repo worktree remove --force "$W" >/dev/null 2>&1' EXIT
cd "$W"
run=$(grep -o 'func Test[A-Za-z0-9_]*' "$SRC/demo_test.go" | head -1 | sed 's/func //' | sed 's/[A-Za-z]$//')
demo_re=$(grep -o 'func Test[A-Za-z0-9_]*' "$SRC/demo_test.go" | sed 's/func //' | paste -sd'|')
cp "$SRC/demo_test.go" "$W/zz_demo_test.go"
go test -vet=off -count=1 $DEMOFLAGS -run "^($demo_re)\$" ./... >"$W/.demo_clean.log" 2>&1; demo_clean=$?
git apply "$SRC/patch.diff" || { echo "patch does not apply"; exit 2; }
go test -vet=off -count=1 $DEMOFLAGS -run "^($demo_re)\$" ./... >"$W/.demo_patched.log" 2>&1; demo_patched=$?
rm -f "$W/zz_demo_test.go"
go build ./... || { echo "does not build"; exit 2; }
go test -vet=off -count=1 ./... >"$W/.suite.log" 2>&1; suite=$?
echo "[$ID] demo clean exit=$demo_clean (want 0)  demo patched exit=$demo_patched (want !=0)  suite with patch exit=$suite (want 0)"
cd /verif
start=$(date +%s)
VERIF_REPO="$W" ./check.sh "$PROP" quick >"/var/tmp/seed-$ID.log" 2>&1; rc=$?
end=$(date +%s)
grep -a -E "^VIOLATION|^KNOWN-FINDING|^  key=|^vsim: [0-9]|HARNESS|SIM-STALL|check.sh:" "/var/tmp/seed-$ID.log" | cut -c1-220
echo "[$ID] check $PROP quick exit=$rc in $((end-start))s"
mkdir -p "/verif/seeded/$ID"
[ "$SRC" -ef "/verif/seeded/$ID" ] || cp "$SRC/patch.diff" "$SRC/demo_test.go" "/verif/seeded/$ID/"
[ -f "$SRC/notes.md" ] && ! [ "$SRC" -ef "/verif/seeded/$ID" ] && cp "$SRC/notes.md" "/verif/seeded/$ID/notes.md"
keys=$(grep -a -E "^  key=" "/var/tmp/seed-$ID.log" | sed 's/^  key=//' | python3 -c 'import sys,json; print(json.dumps([l.strip() for l in sys.stdin]))')
python3 - "$ID" "$PROP" "$demo_clean" "$demo_patched" "$suite" "$rc" "$keys" "$DEMOFLAGS" "$demo_re" <<'PY'
import json,sys
ID,PROP,dc,dp,su,rc,keys,flags,demo=sys.argv[1:10]
p=f"/verif/seeded/{ID}/meta.json"
try: meta=json.load(open(p))
except Exception: meta={}
meta.update({"id":ID,"breaks_property":PROP,
 "confirmed":{"demo_passes_on_clean_tree":dc=="0","demo_fails_with_patch":dp!="0","existing_suite_passes_with_patch":su=="0",
   "commands":[f"git -C /repo worktree add --detach /var/tmp/sw-{ID}", f"go test -vet=off -count=1 {flags} -run '^({demo})$' ./...   (with zz_demo_test.go, before and after git apply patch.diff)", "go test -vet=off -count=1 ./...   (with the patch, without the demo)"]},
 "check_result":{"command":f"VERIF_REPO=/var/tmp/sw-{ID} ./check.sh {PROP} quick","exit":int(rc),"detected":rc=="1","violation_keys":json.loads(keys)}})
meta.setdefault("needs_to_manifest","see notes.md")
json.dump(meta,open(p,"w"),indent=1)
PY
exit 0
