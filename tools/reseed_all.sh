#!/bin/bash
# re-confirms every seeded change and runs the property's quick check against it (refreshes seeded/<id>/meta.json)
cd /verif
for d in seeded/C1*/; do
  id=$(basename $d); prop=${id%%-*}
  flags=""; [ "$prop" = C18 ] && flags="-race -timeout 20m"
  tools/seedcheck.sh /verif/seeded/$id $id $prop "$flags" 2>&1 | grep "^\[$id\]"
done
