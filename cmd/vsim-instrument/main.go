// vsim-instrument rewrites the non-test Go files of one package directory in
// place (the directory is a scratch copy, never /repo) so that the code can be
// driven by the deterministic simulator:
//
//   - vsimrt.Y(id)  at the start of every function body and every loop body;
//   - vsimrt.YS(id) before and after every simple statement that mentions a
//     package-level variable of the package (before only, for compound
//     statements and for statements that end the control flow);
//   - sync.Pool / Mutex / RWMutex / WaitGroup / Once  ->  vsimrt.<same>;
//   - go f(args)  ->  vsimrt.Go(...) with the arguments evaluated at the go
//     statement.
//
// It only adds statements and swaps the names listed above; it never deletes
// or reorders code of the package. It writes sites.json (site id -> position)
// and api.json (exported functions and methods).
package main

import (
	"encoding/json"
	"flag"
	"fmt"
	"go/ast"
	"go/parser"
	"go/printer"
	"go/token"
	"os"
	"path/filepath"
	"reflect"
	"sort"
	"strconv"
	"strings"
)

type Site struct {
	ID   uint32 `json:"id"`
	File string `json:"file"`
	Line int    `json:"line"`
	Kind string `json:"kind"`
	Func string `json:"func"`
}

type API struct {
	Name string `json:"name"`
	Recv string `json:"recv,omitempty"`
	File string `json:"file"`
	Line int    `json:"line"`
}

var (
	nextSite uint32
	sites    []Site
	apis     []API
	pkgVars  = map[string]bool{}
	fileSpec = map[*ast.ValueSpec]bool{}
	fset     = token.NewFileSet()
	syncSwap = map[string]bool{"Pool": true, "Mutex": true, "RWMutex": true, "WaitGroup": true, "Once": true}
	chanOps  int
	goStmts  int
	swapped  int
)

func fail(format string, a ...any) {
	fmt.Fprintf(os.Stderr, "vsim-instrument: "+format+"\n", a...)
	os.Exit(2)
}

func main() {
	dir := flag.String("dir", "", "package directory to rewrite in place")
	base := flag.Uint("base", 1, "first site id")
	out := flag.String("out", "", "directory for sites.json / api.json")
	tag := flag.String("name", "lib", "short name used in the json file names")
	flag.Parse()
	if *dir == "" || *out == "" {
		fail("usage: vsim-instrument -dir D -out O [-base N] [-name lib]")
	}
	nextSite = uint32(*base)

	ents, err := os.ReadDir(*dir)
	if err != nil {
		fail("%v", err)
	}
	var names []string
	for _, e := range ents {
		n := e.Name()
		if e.IsDir() || !strings.HasSuffix(n, ".go") || strings.HasSuffix(n, "_test.go") {
			continue
		}
		names = append(names, n)
	}
	sort.Strings(names)
	var files []*ast.File
	for _, n := range names {
		f, err := parser.ParseFile(fset, filepath.Join(*dir, n), nil, parser.ParseComments)
		if err != nil {
			fail("%v", err)
		}
		for _, cg := range f.Comments {
			for _, c := range cg.List {
				if strings.HasPrefix(c.Text, "//go:") && !strings.HasPrefix(c.Text, "//go:generate") || strings.HasPrefix(c.Text, "// +build") {
					fail("%s: compiler directive %q: the rewriter does not handle directives", fset.Position(c.Pos()), c.Text)
				}
			}
		}
		for _, im := range f.Imports {
			if im.Path.Value == `"C"` {
				fail("%s: imports %s: not handled", n, im.Path.Value)
			}
		}
		files = append(files, f)
	}
	// package-level variables
	for _, f := range files {
		for _, d := range f.Decls {
			gd, ok := d.(*ast.GenDecl)
			if !ok || gd.Tok != token.VAR {
				continue
			}
			for _, sp := range gd.Specs {
				vs := sp.(*ast.ValueSpec)
				fileSpec[vs] = true
				for _, id := range vs.Names {
					if id.Name != "_" {
						pkgVars[id.Name] = true
					}
				}
			}
		}
	}
	for _, f := range files {
		collectChanNames(f)
	}
	for i, f := range files {
		rewriteFile(f, names[i])
		f.Comments = nil
		var sb strings.Builder
		cfg := printer.Config{Mode: printer.UseSpaces | printer.TabIndent, Tabwidth: 8}
		if err := cfg.Fprint(&sb, fset, f); err != nil {
			fail("print %s: %v", names[i], err)
		}
		if err := os.WriteFile(filepath.Join(*dir, names[i]), []byte(sb.String()), 0o644); err != nil {
			fail("%v", err)
		}
	}
	writeJSON(filepath.Join(*out, *tag+".sites.json"), map[string]any{
		"sites": sites, "next": nextSite, "go_statements": goStmts, "channel_ops": chanOps, "sync_swapped": swapped,
		"package_vars": sortedKeys(pkgVars),
	})
	writeJSON(filepath.Join(*out, *tag+".api.json"), apis)
}

func sortedKeys(m map[string]bool) []string {
	var k []string
	for s := range m {
		k = append(k, s)
	}
	sort.Strings(k)
	return k
}

func writeJSON(path string, v any) {
	b, err := json.MarshalIndent(v, "", " ")
	if err != nil {
		fail("%v", err)
	}
	if err := os.WriteFile(path, b, 0o644); err != nil {
		fail("%v", err)
	}
}

func site(pos token.Pos, kind, fn string) ast.Expr {
	id := nextSite
	nextSite++
	p := fset.Position(pos)
	sites = append(sites, Site{ID: id, File: filepath.Base(p.Filename), Line: p.Line, Kind: kind, Func: fn})
	return &ast.BasicLit{Kind: token.INT, Value: strconv.FormatUint(uint64(id), 10)}
}

func callStmt(fn string, arg ast.Expr) ast.Stmt {
	return &ast.ExprStmt{X: &ast.CallExpr{
		Fun:  &ast.SelectorExpr{X: ast.NewIdent("vsimrt"), Sel: ast.NewIdent(fn)},
		Args: []ast.Expr{arg},
	}}
}

type rewriter struct {
	file     *ast.File
	fname    string
	curFunc  string
	syncName string // local name of the sync import ("" if not imported)
	used     bool
	swappedRuntime bool
}

// ---------------------------------------------------------------------------
// channel operations
// ---------------------------------------------------------------------------

// struct fields declared with a channel type / with another type, by name
var chanFields = map[string]bool{}
var otherFields = map[string]bool{}

func isMakeChan(e ast.Expr) bool {
	c, ok := e.(*ast.CallExpr)
	if !ok || len(c.Args) == 0 {
		return false
	}
	if id, ok := c.Fun.(*ast.Ident); !ok || id.Name != "make" {
		return false
	}
	_, ok = c.Args[0].(*ast.ChanType)
	return ok
}

// collectChanNames records the struct fields that are channels.
func collectChanNames(f *ast.File) {
	ast.Inspect(f, func(n ast.Node) bool {
		if st, ok := n.(*ast.StructType); ok && st.Fields != nil {
			for _, fl := range st.Fields.List {
				_, isChan := fl.Type.(*ast.ChanType)
				for _, id := range fl.Names {
					if isChan {
						chanFields[id.Name] = true
					} else {
						otherFields[id.Name] = true
					}
				}
			}
		}
		return true
	})
}

// isChanExpr reports whether e is syntactically known to be a channel: an
// identifier whose declaration (resolved by the parser) has a channel type or
// is initialised by make(chan ...), or a struct field that is declared as a
// channel and never as anything else.
func isChanExpr(e ast.Expr) bool {
	switch t := e.(type) {
	case *ast.ParenExpr:
		return isChanExpr(t.X)
	case *ast.SelectorExpr:
		return chanFields[t.Sel.Name] && !otherFields[t.Sel.Name]
	case *ast.Ident:
		if t.Obj == nil {
			return false
		}
		switch d := t.Obj.Decl.(type) {
		case *ast.Field:
			_, ok := d.Type.(*ast.ChanType)
			return ok
		case *ast.ValueSpec:
			if _, ok := d.Type.(*ast.ChanType); ok {
				return true
			}
			for i, id := range d.Names {
				if id.Name == t.Name && i < len(d.Values) {
					return isMakeChan(d.Values[i])
				}
			}
		case *ast.AssignStmt:
			for i, l := range d.Lhs {
				if id, ok := l.(*ast.Ident); ok && id.Name == t.Name && i < len(d.Rhs) {
					return isMakeChan(d.Rhs[i])
				}
			}
		}
	}
	return false
}

func vcall(fn string, args ...ast.Expr) *ast.CallExpr {
	return &ast.CallExpr{Fun: &ast.SelectorExpr{X: ast.NewIdent("vsimrt"), Sel: ast.NewIdent(fn)}, Args: args}
}

var selCounter int

// rewriteBlockingSelect: select without default ->
//
//	switch { default:
//		vsimC<k>_0 := vsimrt.SendCase(ch, v); vsimC<k>_1 := vsimrt.RecvCase(ch2)
//		switch vsimrt.Select(vsimC<k>_0, vsimC<k>_1) { case 0: A; case 1: x, ok := vsimC<k>_1.V, vsimC<k>_1.Ok; B }
//	}
//
// (break keeps its meaning: it leaves the inner switch and then the outer one
// ends; a label on the select stays on the outer switch; continue, goto and
// return pass through.)
func (r *rewriter) rewriteBlockingSelect(t *ast.SelectStmt) ast.Node {
	chanOps++
	r.used = true
	selCounter++
	var pre []ast.Stmt
	var args []ast.Expr
	var clauses []ast.Stmt
	for i, c := range t.Body.List {
		cc := c.(*ast.CommClause)
		for j := range cc.Body {
			cc.Body[j] = r.rewriteChans(cc.Body[j]).(ast.Stmt)
		}
		name := fmt.Sprintf("vsimC%d_%d", selCounter, i)
		id := func() *ast.Ident { return ast.NewIdent(name) }
		body := cc.Body
		field := func(f string) ast.Expr { return &ast.SelectorExpr{X: id(), Sel: ast.NewIdent(f)} }
		var mk ast.Expr
		switch cm := cc.Comm.(type) {
		case *ast.SendStmt:
			mk = vcall("SendCase", r.rewriteChans(cm.Chan).(ast.Expr), r.rewriteChans(cm.Value).(ast.Expr))
		case *ast.ExprStmt:
			u, ok := cm.X.(*ast.UnaryExpr)
			if !ok || u.Op != token.ARROW {
				fail("%s: unexpected select communication", fset.Position(cm.Pos()))
			}
			mk = vcall("RecvCase", r.rewriteChans(u.X).(ast.Expr))
		case *ast.AssignStmt:
			u, ok := cm.Rhs[0].(*ast.UnaryExpr)
			if !ok || u.Op != token.ARROW {
				fail("%s: unexpected select communication", fset.Position(cm.Pos()))
			}
			mk = vcall("RecvCase", r.rewriteChans(u.X).(ast.Expr))
			rhs := []ast.Expr{field("V")}
			if len(cm.Lhs) == 2 {
				rhs = append(rhs, field("Ok"))
			}
			lhs := make([]ast.Expr, len(cm.Lhs))
			for k := range cm.Lhs {
				lhs[k] = r.rewriteChans(cm.Lhs[k]).(ast.Expr)
			}
			body = append([]ast.Stmt{&ast.AssignStmt{Lhs: lhs, Tok: cm.Tok, Rhs: rhs}}, body...)
		default:
			fail("%s: unexpected select communication", fset.Position(cc.Pos()))
		}
		pre = append(pre, &ast.AssignStmt{Lhs: []ast.Expr{id()}, Tok: token.DEFINE, Rhs: []ast.Expr{mk}})
		args = append(args, id())
		clauses = append(clauses, &ast.CaseClause{List: []ast.Expr{&ast.BasicLit{Kind: token.INT, Value: fmt.Sprint(i)}}, Body: body})
	}
	inner := &ast.SwitchStmt{Tag: vcall("Select", args...), Body: &ast.BlockStmt{List: clauses}}
	return &ast.SwitchStmt{Body: &ast.BlockStmt{List: []ast.Stmt{&ast.CaseClause{Body: append(pre, inner)}}}}
}

var exprType = reflect.TypeOf((*ast.Expr)(nil)).Elem()
var stmtType = reflect.TypeOf((*ast.Stmt)(nil)).Elem()

// rewriteChans rewrites the channel operations below n (in place) and returns
// the replacement for n itself. inComm: n is the communication of a select
// case and must stay a real channel operation.
func (r *rewriter) rewriteChans(n ast.Node) ast.Node {
	if n == nil || reflect.ValueOf(n).IsNil() {
		return n
	}
	switch t := n.(type) {
	case *ast.SelectStmt:
		hasDefault := false
		for _, c := range t.Body.List {
			if c.(*ast.CommClause).Comm == nil {
				hasDefault = true
			}
		}
		if !hasDefault {
			return r.rewriteBlockingSelect(t)
		}
		// select { cases...; default: D }  ->  switch { default: if case1 {..} else if case2 {..} else { D } }
		// (first ready case in source order: one of the behaviours select may
		// show; break keeps its meaning because of the switch, continue and
		// labels pass through)
		chanOps++
		r.used = true
		var defBody []ast.Stmt
		type cl struct {
			ifs *ast.IfStmt
		}
		var chain []*ast.IfStmt
		for _, c := range t.Body.List {
			cc := c.(*ast.CommClause)
			for i := range cc.Body {
				cc.Body[i] = r.rewriteChans(cc.Body[i]).(ast.Stmt)
			}
			body := &ast.BlockStmt{List: cc.Body}
			got := ast.NewIdent("vsimGot")
			switch cm := cc.Comm.(type) {
			case nil:
				defBody = cc.Body
			case *ast.SendStmt:
				ch := r.rewriteChans(cm.Chan).(ast.Expr)
				v := r.rewriteChans(cm.Value).(ast.Expr)
				chain = append(chain, &ast.IfStmt{Cond: vcall("TrySend", ch, v), Body: body})
			case *ast.ExprStmt:
				u, ok := cm.X.(*ast.UnaryExpr)
				if !ok || u.Op != token.ARROW {
					fail("%s: unexpected select communication", fset.Position(cm.Pos()))
				}
				ch := r.rewriteChans(u.X).(ast.Expr)
				chain = append(chain, &ast.IfStmt{
					Init: &ast.AssignStmt{Lhs: []ast.Expr{ast.NewIdent("_"), ast.NewIdent("_"), got}, Tok: token.DEFINE, Rhs: []ast.Expr{vcall("TryRecv", ch)}},
					Cond: got, Body: body})
			case *ast.AssignStmt:
				u, ok := cm.Rhs[0].(*ast.UnaryExpr)
				if !ok || u.Op != token.ARROW {
					fail("%s: unexpected select communication", fset.Position(cm.Pos()))
				}
				ch := r.rewriteChans(u.X).(ast.Expr)
				if cm.Tok == token.DEFINE {
					lhs := []ast.Expr{cm.Lhs[0], ast.NewIdent("_"), got}
					if len(cm.Lhs) == 2 {
						lhs[1] = cm.Lhs[1]
					}
					chain = append(chain, &ast.IfStmt{
						Init: &ast.AssignStmt{Lhs: lhs, Tok: token.DEFINE, Rhs: []ast.Expr{vcall("TryRecv", ch)}},
						Cond: got, Body: body})
				} else {
					t0, t1 := ast.NewIdent("vsimT0"), ast.NewIdent("vsimT1")
					asg := &ast.AssignStmt{Lhs: []ast.Expr{cm.Lhs[0]}, Tok: token.ASSIGN, Rhs: []ast.Expr{t0}}
					lhs := []ast.Expr{t0, ast.NewIdent("_"), got}
					if len(cm.Lhs) == 2 {
						lhs[1] = t1
						asg = &ast.AssignStmt{Lhs: []ast.Expr{cm.Lhs[0], cm.Lhs[1]}, Tok: token.ASSIGN, Rhs: []ast.Expr{t0, t1}}
					}
					body.List = append([]ast.Stmt{asg}, body.List...)
					chain = append(chain, &ast.IfStmt{
						Init: &ast.AssignStmt{Lhs: lhs, Tok: token.DEFINE, Rhs: []ast.Expr{vcall("TryRecv", ch)}},
						Cond: got, Body: body})
				}
			}
		}
		var root ast.Stmt = &ast.BlockStmt{List: defBody}
		for i := len(chain) - 1; i >= 0; i-- {
			chain[i].Else = root
			root = chain[i]
		}
		return &ast.SwitchStmt{Body: &ast.BlockStmt{List: []ast.Stmt{&ast.CaseClause{Body: []ast.Stmt{root}}}}}
	case *ast.SendStmt:
		chanOps++
		r.used = true
		ch := r.rewriteChans(t.Chan).(ast.Expr)
		v := r.rewriteChans(t.Value).(ast.Expr)
		return &ast.ExprStmt{X: vcall("Send", ch, v)}
	case *ast.CallExpr:
		if se, ok := t.Fun.(*ast.SelectorExpr); ok && se.Sel.Name == "Gosched" && len(t.Args) == 0 {
			if id, ok := se.X.(*ast.Ident); ok && id.Name == "runtime" && id.Obj == nil {
				r.used = true
				r.swappedRuntime = true
				return vcall("Gosched")
			}
		}
	case *ast.UnaryExpr:
		if t.Op == token.ARROW {
			chanOps++
			r.used = true
			return vcall("Recv", r.rewriteChans(t.X).(ast.Expr))
		}
	case *ast.AssignStmt:
		if len(t.Lhs) == 2 && len(t.Rhs) == 1 {
			if u, ok := t.Rhs[0].(*ast.UnaryExpr); ok && u.Op == token.ARROW {
				chanOps++
				r.used = true
				t.Rhs[0] = vcall("Recv2", r.rewriteChans(u.X).(ast.Expr))
				for i := range t.Lhs {
					t.Lhs[i] = r.rewriteChans(t.Lhs[i]).(ast.Expr)
				}
				return t
			}
		}
	case *ast.RangeStmt:
		if isChanExpr(t.X) {
			chanOps++
			r.used = true
			// for k := range ch { body }  ->  for { k, ok := Recv2(ch); if !ok { break }; body }
			body := r.rewriteChans(t.Body).(*ast.BlockStmt)
			key := t.Key
			if key == nil {
				key = ast.NewIdent("_")
			}
			tok := t.Tok
			if id, ok := key.(*ast.Ident); ok && id.Name == "_" || tok == token.ILLEGAL {
				tok = token.DEFINE
			}
			okName := ast.NewIdent("vsimOk")
			chVar := ast.NewIdent("vsimCh") // the range expression is evaluated once
			bind := &ast.AssignStmt{Lhs: []ast.Expr{chVar}, Tok: token.DEFINE, Rhs: []ast.Expr{r.rewriteChans(t.X).(ast.Expr)}}
			recv := &ast.AssignStmt{Lhs: []ast.Expr{key, okName}, Tok: token.DEFINE, Rhs: []ast.Expr{vcall("Recv2", chVar)}}
			if tok == token.ASSIGN {
				// the loop variable exists already: receive into a temporary
				tmp := ast.NewIdent("vsimV")
				recv = &ast.AssignStmt{Lhs: []ast.Expr{tmp, okName}, Tok: token.DEFINE, Rhs: []ast.Expr{vcall("Recv2", chVar)}}
				body.List = append([]ast.Stmt{&ast.AssignStmt{Lhs: []ast.Expr{key}, Tok: token.ASSIGN, Rhs: []ast.Expr{tmp}}}, body.List...)
			}
			brk := &ast.IfStmt{Cond: &ast.UnaryExpr{Op: token.NOT, X: okName}, Body: &ast.BlockStmt{List: []ast.Stmt{&ast.BranchStmt{Tok: token.BREAK}}}}
			// a `continue` in the body re-enters the for and receives again: same as range
			body.List = append([]ast.Stmt{recv, brk}, body.List...)
			return &ast.BlockStmt{List: []ast.Stmt{bind, &ast.ForStmt{Body: body}}}
		}
	}
	// generic traversal: replace Expr / Stmt / slices of them in the fields of n
	v := reflect.ValueOf(n)
	if v.Kind() == reflect.Ptr {
		v = v.Elem()
	}
	if v.Kind() != reflect.Struct {
		return n
	}
	for i := 0; i < v.NumField(); i++ {
		f := v.Field(i)
		if !f.CanSet() {
			continue
		}
		switch {
		case f.Type() == exprType || f.Type() == stmtType:
			if f.IsNil() {
				continue
			}
			f.Set(reflect.ValueOf(r.rewriteChans(f.Interface().(ast.Node))))
		case f.Kind() == reflect.Slice && (f.Type().Elem() == exprType || f.Type().Elem() == stmtType):
			for j := 0; j < f.Len(); j++ {
				e := f.Index(j)
				if e.IsNil() {
					continue
				}
				e.Set(reflect.ValueOf(r.rewriteChans(e.Interface().(ast.Node))))
			}
		case f.Kind() == reflect.Interface && !f.IsNil():
			if nn, ok := f.Interface().(ast.Node); ok {
				r.rewriteChans(nn)
			}
		case f.Kind() == reflect.Ptr && !f.IsNil():
			if nn, ok := f.Interface().(ast.Node); ok {
				switch nn.(type) {
				case *ast.CommentGroup, *ast.Ident, *ast.BasicLit:
				default:
					r.rewriteChans(nn)
				}
			}
		case f.Kind() == reflect.Slice:
			for j := 0; j < f.Len(); j++ {
				e := f.Index(j)
				if e.Kind() == reflect.Ptr && !e.IsNil() {
					if nn, ok := e.Interface().(ast.Node); ok {
						switch nn.(type) {
						case *ast.Comment, *ast.CommentGroup, *ast.Ident, *ast.ImportSpec:
						default:
							r.rewriteChans(nn)
						}
					}
				} else if e.Kind() == reflect.Interface && !e.IsNil() {
					if nn, ok := e.Interface().(ast.Node); ok {
						r.rewriteChans(nn)
					}
				}
			}
		}
	}
	return n
}

func rewriteFile(f *ast.File, fname string) {
	r := &rewriter{file: f, fname: fname}
	for _, d := range f.Decls {
		if fd, ok := d.(*ast.FuncDecl); ok && fd.Body != nil {
			r.rewriteChans(fd.Body)
		} else if gd, ok := d.(*ast.GenDecl); ok && gd.Tok == token.VAR {
			r.rewriteChans(gd)
		}
	}
	for _, im := range f.Imports {
		if im.Path.Value == `"sync"` {
			r.syncName = "sync"
			if im.Name != nil {
				r.syncName = im.Name.Name
			}
		}
		if im.Path.Value == `"vsimrt"` {
			fail("%s already imports vsimrt", fname)
		}
	}
	for _, d := range f.Decls {
		fd, ok := d.(*ast.FuncDecl)
		if !ok {
			continue
		}
		recv := ""
		if fd.Recv != nil && len(fd.Recv.List) > 0 {
			recv = typeName(fd.Recv.List[0].Type)
		}
		if fd.Name.IsExported() {
			p := fset.Position(fd.Pos())
			apis = append(apis, API{Name: fd.Name.Name, Recv: recv, File: fname, Line: p.Line})
		}
		if fd.Body == nil {
			continue
		}
		r.curFunc = fd.Name.Name
		if recv != "" {
			r.curFunc = recv + "." + fd.Name.Name
		}
		r.funcBody(fd.Body, fd.Pos())
	}
	// function literals at package level (var f = func(){...})
	for _, d := range f.Decls {
		if gd, ok := d.(*ast.GenDecl); ok {
			r.curFunc = "<package-level literal>"
			ast.Inspect(gd, func(n ast.Node) bool {
				if fl, ok := n.(*ast.FuncLit); ok {
					r.funcBody(fl.Body, fl.Pos())
					return false
				}
				return true
			})
		}
	}
	// swap sync type names everywhere
	if r.syncName != "" {
		ast.Inspect(f, func(n ast.Node) bool {
			se, ok := n.(*ast.SelectorExpr)
			if !ok {
				return true
			}
			if id, ok := se.X.(*ast.Ident); ok && id.Name == r.syncName && id.Obj == nil && syncSwap[se.Sel.Name] {
				id.Name = "vsimrt"
				r.used = true
				swapped++
			}
			return true
		})
		still := false
		ast.Inspect(f, func(n ast.Node) bool {
			if se, ok := n.(*ast.SelectorExpr); ok {
				if id, ok := se.X.(*ast.Ident); ok && id.Name == r.syncName && id.Obj == nil {
					still = true
				}
			}
			return true
		})
		if !still {
			removeImport(f, `"sync"`)
		}
	}
	if r.swappedRuntime {
		still := false
		ast.Inspect(f, func(n ast.Node) bool {
			if se, ok := n.(*ast.SelectorExpr); ok {
				if id, ok := se.X.(*ast.Ident); ok && id.Name == "runtime" && id.Obj == nil {
					still = true
				}
			}
			return true
		})
		if !still {
			removeImport(f, `"runtime"`)
		}
	}
	if r.used {
		imp := &ast.GenDecl{Tok: token.IMPORT, Specs: []ast.Spec{&ast.ImportSpec{Path: &ast.BasicLit{Kind: token.STRING, Value: `"vsimrt"`}}}}
		f.Decls = append([]ast.Decl{imp}, f.Decls...)
	}
}

func removeImport(f *ast.File, path string) {
	var decls []ast.Decl
	for _, d := range f.Decls {
		gd, ok := d.(*ast.GenDecl)
		if !ok || gd.Tok != token.IMPORT {
			decls = append(decls, d)
			continue
		}
		var specs []ast.Spec
		for _, s := range gd.Specs {
			if s.(*ast.ImportSpec).Path.Value != path {
				specs = append(specs, s)
			}
		}
		if len(specs) == 0 {
			continue
		}
		gd.Specs = specs
		decls = append(decls, gd)
	}
	f.Decls = decls
}

func typeName(e ast.Expr) string {
	switch t := e.(type) {
	case *ast.Ident:
		return t.Name
	case *ast.StarExpr:
		return typeName(t.X)
	case *ast.IndexExpr:
		return typeName(t.X)
	case *ast.IndexListExpr:
		return typeName(t.X)
	case *ast.ParenExpr:
		return typeName(t.X)
	}
	return "?"
}

func (r *rewriter) funcBody(b *ast.BlockStmt, pos token.Pos) {
	r.block(b)
	b.List = append([]ast.Stmt{callStmt("Y", site(pos, "func", r.curFunc))}, b.List...)
	r.used = true
}

// mentions reports whether the expression/statement n (function literals
// excluded) refers to a package-level variable.
func (r *rewriter) mentions(n ast.Node) bool {
	if n == nil {
		return false
	}
	found := false
	var skip = map[*ast.Ident]bool{}
	ast.Inspect(n, func(x ast.Node) bool {
		if found {
			return false
		}
		switch t := x.(type) {
		case *ast.FuncLit:
			return false
		case *ast.SelectorExpr:
			skip[t.Sel] = true
		case *ast.KeyValueExpr:
			// struct literal field names are identifiers too; a map/array key
			// that is a package variable is rare enough to ignore
			if id, ok := t.Key.(*ast.Ident); ok {
				skip[id] = true
			}
		case *ast.Ident:
			if skip[t] || !pkgVars[t.Name] {
				return true
			}
			if t.Obj == nil {
				found = true // declared in another file of the package
				return false
			}
			if vs, ok := t.Obj.Decl.(*ast.ValueSpec); ok && fileSpec[vs] {
				found = true
				return false
			}
		}
		return true
	})
	return found
}

func terminating(s ast.Stmt) bool {
	switch t := s.(type) {
	case *ast.ReturnStmt, *ast.BranchStmt:
		return true
	case *ast.ExprStmt:
		if c, ok := t.X.(*ast.CallExpr); ok {
			if id, ok := c.Fun.(*ast.Ident); ok && id.Name == "panic" {
				return true
			}
		}
	}
	return false
}

// stmts rewrites a statement list.
func (r *rewriter) stmts(list []ast.Stmt) []ast.Stmt {
	var out []ast.Stmt
	for _, s := range list {
		before, after := false, false
		inner := s
		for {
			if ls, ok := inner.(*ast.LabeledStmt); ok {
				inner = ls.Stmt
				continue
			}
			break
		}
		switch t := inner.(type) {
		case *ast.ExprStmt, *ast.AssignStmt, *ast.IncDecStmt, *ast.DeclStmt, *ast.SendStmt, *ast.DeferStmt, *ast.ReturnStmt, *ast.GoStmt:
			if r.mentions(inner) {
				before = true
				after = !terminating(inner)
			}
		case *ast.IfStmt:
			before = r.mentions(t.Init) || r.mentions(t.Cond)
		case *ast.ForStmt:
			before = r.mentions(t.Init) || r.mentions(t.Cond) || r.mentions(t.Post)
		case *ast.RangeStmt:
			before = r.mentions(t.X)
		case *ast.SwitchStmt:
			before = r.mentions(t.Init) || r.mentions(t.Tag)
		case *ast.TypeSwitchStmt:
			before = r.mentions(t.Init) || r.mentions(t.Assign)
		}
		r.stmt(s)
		// a go statement is replaced as a whole
		if _, ok := s.(*ast.GoStmt); ok {
			s = r.goStmt(s.(*ast.GoStmt))
		} else if ls, ok := s.(*ast.LabeledStmt); ok {
			if g, ok := ls.Stmt.(*ast.GoStmt); ok {
				ls.Stmt = r.goStmt(g)
			}
		}
		if before {
			out = append(out, callStmt("YS", site(inner.Pos(), "shared-before", r.curFunc)))
			r.used = true
		}
		out = append(out, s)
		if after {
			out = append(out, callStmt("YS", site(inner.End(), "shared-after", r.curFunc)))
		}
	}
	return out
}

func (r *rewriter) block(b *ast.BlockStmt) {
	if b == nil {
		return
	}
	b.List = r.stmts(b.List)
}

// exprs instruments the function literals found inside an expression tree.
func (r *rewriter) exprs(n ast.Node) {
	if n == nil {
		return
	}
	ast.Inspect(n, func(x ast.Node) bool {
		switch t := x.(type) {
		case *ast.FuncLit:
			r.funcBody(t.Body, t.Pos())
			return false
		}
		return true
	})
}

func (r *rewriter) loopBody(b *ast.BlockStmt, pos token.Pos) {
	r.block(b)
	b.List = append([]ast.Stmt{callStmt("Y", site(pos, "loop", r.curFunc))}, b.List...)
	r.used = true
}

func (r *rewriter) stmt(s ast.Stmt) {
	switch t := s.(type) {
	case nil:
	case *ast.BlockStmt:
		r.block(t)
	case *ast.LabeledStmt:
		r.stmt(t.Stmt)
	case *ast.IfStmt:
		r.stmt(t.Init)
		r.exprs(t.Cond)
		r.block(t.Body)
		r.stmt(t.Else)
	case *ast.ForStmt:
		r.stmt(t.Init)
		r.exprs(t.Cond)
		r.stmt(t.Post)
		r.loopBody(t.Body, t.Pos())
	case *ast.RangeStmt:
		r.exprs(t.X)
		if ct, ok := t.X.(*ast.Ident); ok && ct != nil {
			_ = ct
		}
		r.loopBody(t.Body, t.Pos())
	case *ast.SwitchStmt:
		r.stmt(t.Init)
		r.exprs(t.Tag)
		for _, c := range t.Body.List {
			cc := c.(*ast.CaseClause)
			for _, e := range cc.List {
				r.exprs(e)
			}
			cc.Body = r.stmts(cc.Body)
		}
	case *ast.TypeSwitchStmt:
		r.stmt(t.Init)
		r.stmt(t.Assign)
		for _, c := range t.Body.List {
			cc := c.(*ast.CaseClause)
			cc.Body = r.stmts(cc.Body)
		}
	case *ast.SelectStmt:
		for _, c := range t.Body.List {
			cc := c.(*ast.CommClause)
			r.stmt(cc.Comm)
			cc.Body = r.stmts(cc.Body)
		}
	case *ast.SendStmt:
		r.exprs(t.Chan)
		r.exprs(t.Value)
	case *ast.GoStmt:
		goStmts++
		r.exprs(t.Call)
	case *ast.DeferStmt:
		r.exprs(t.Call)
	case *ast.ExprStmt:
		r.exprs(t.X)
	case *ast.AssignStmt:
		for _, e := range t.Lhs {
			r.exprs(e)
		}
		for _, e := range t.Rhs {
			r.exprs(e)
		}
	case *ast.IncDecStmt:
		r.exprs(t.X)
	case *ast.DeclStmt:
		r.exprs(t.Decl)
	case *ast.ReturnStmt:
		for _, e := range t.Results {
			r.exprs(e)
		}
	}
}

// needsEarly reports whether a go-statement argument must be evaluated at the
// go statement (it is not a compile-time constant expression).
func needsEarly(e ast.Expr) bool {
	early := false
	ast.Inspect(e, func(x ast.Node) bool {
		switch t := x.(type) {
		case *ast.CallExpr, *ast.IndexExpr, *ast.StarExpr, *ast.FuncLit, *ast.CompositeLit, *ast.SliceExpr, *ast.TypeAssertExpr, *ast.SelectorExpr:
			early = true
		case *ast.UnaryExpr:
			if t.Op == token.AND || t.Op == token.ARROW {
				early = true
			}
		case *ast.Ident:
			if t.Obj != nil && t.Obj.Kind == ast.Var {
				early = true
			}
			if t.Obj == nil && pkgVars[t.Name] {
				early = true
			}
		}
		return !early
	})
	return early
}

// goStmt turns `go f(a, b)` into
//
//	vsimrt.Go(func() func() { f0 := f; a0, a1 := a, b; return func() { f0(a0, a1) } }())
func (r *rewriter) goStmt(g *ast.GoStmt) ast.Stmt {
	r.used = true
	call := g.Call
	if fl, ok := call.Fun.(*ast.FuncLit); ok && len(call.Args) == 0 {
		return &ast.ExprStmt{X: &ast.CallExpr{
			Fun:  &ast.SelectorExpr{X: ast.NewIdent("vsimrt"), Sel: ast.NewIdent("Go")},
			Args: []ast.Expr{fl},
		}}
	}
	var pre []ast.Stmt
	fun := call.Fun
	bindFun := true
	switch f := call.Fun.(type) {
	case *ast.FuncLit:
		bindFun = false
	case *ast.Ident:
		// a declared function is the same whenever it is looked at; a variable of function type is read at the go statement
		bindFun = f.Obj != nil && f.Obj.Kind == ast.Var
	}
	switch {
	case !bindFun:
	default:
		pre = append(pre, &ast.AssignStmt{Lhs: []ast.Expr{ast.NewIdent("vsimF0")}, Tok: token.DEFINE, Rhs: []ast.Expr{call.Fun}})
		fun = ast.NewIdent("vsimF0")
	}
	var args []ast.Expr
	for i, a := range call.Args {
		if needsEarly(a) {
			name := fmt.Sprintf("vsimA%d", i)
			pre = append(pre, &ast.AssignStmt{Lhs: []ast.Expr{ast.NewIdent(name)}, Tok: token.DEFINE, Rhs: []ast.Expr{a}})
			args = append(args, ast.NewIdent(name))
		} else {
			args = append(args, a)
		}
	}
	innerCall := &ast.CallExpr{Fun: fun, Args: args, Ellipsis: call.Ellipsis}
	if call.Ellipsis != token.NoPos {
		innerCall.Ellipsis = 1
	}
	inner := &ast.FuncLit{Type: &ast.FuncType{Params: &ast.FieldList{}}, Body: &ast.BlockStmt{List: []ast.Stmt{&ast.ExprStmt{X: innerCall}}}}
	outerBody := append(pre, &ast.ReturnStmt{Results: []ast.Expr{inner}})
	outer := &ast.FuncLit{
		Type: &ast.FuncType{Params: &ast.FieldList{}, Results: &ast.FieldList{List: []*ast.Field{{Type: &ast.FuncType{Params: &ast.FieldList{}}}}}},
		Body: &ast.BlockStmt{List: outerBody},
	}
	return &ast.ExprStmt{X: &ast.CallExpr{
		Fun:  &ast.SelectorExpr{X: ast.NewIdent("vsimrt"), Sel: ast.NewIdent("Go")},
		Args: []ast.Expr{&ast.CallExpr{Fun: outer}},
	}}
}
