package main

import (
	"fmt"
	"math"
	"os"
	"time"
)

// classPriority orders the violations of one run: the most specific first.
func classPriority(v *Violation) int {
	switch v.Class {
	case "race":
		return 0
	case "immutability", "shared-input":
		return 1
	case "deadlock":
		return 2
	case "history", "repeat", "reentrant":
		return 3
	case "concurrent-outcome":
		return 4
	}
	return 5
}

func pickViolation(vs []Violation) Violation {
	best := 0
	for i := range vs {
		if classPriority(&vs[i]) < classPriority(&vs[best]) {
			best = i
		}
	}
	return vs[best]
}

type shrinker struct {
	c        *coord
	want     Violation
	deadline time.Time
	tried    int
	inproc   bool
	attempts int // code that is itself nondeterministic (the C17 subject matter) may need several replays
	last     *Violation
	lastLog  string
}

// test reports whether the candidate still shows the same violation.
func (sh *shrinker) test(s *Script) bool {
	n := sh.attempts
	if n < 1 {
		n = 1
	}
	for i := 0; i < n; i++ {
		if sh.test1(s) {
			return true
		}
	}
	return false
}

func (sh *shrinker) test1(s *Script) bool {
	sh.tried++
	if sh.inproc {
		res := execScript(s, nil)
		if v := matchViolation(res.Violations, &sh.want); v != nil {
			cp := *v
			sh.last = &cp
			return true
		}
		return false
	}
	v, eo, err := sh.c.reproduces(s, &sh.want)
	if err != nil || v == nil {
		return false
	}
	cp := *v
	sh.last = &cp
	if eo != nil {
		sh.lastLog = eo.RaceLog
	}
	return true
}

func (sh *shrinker) timeUp() bool { return time.Now().After(sh.deadline) }

// try applies f to a copy of cur; if the result still fails it becomes cur.
func (sh *shrinker) try(cur **Script, f func(s *Script) bool) bool {
	if sh.timeUp() {
		return false
	}
	cand := (*cur).clone()
	if !f(cand) {
		return false
	}
	if sh.test(cand) {
		*cur = cand
		return true
	}
	return false
}

func dropTask(s *Script, ti int) {
	s.Tasks = append(s.Tasks[:ti], s.Tasks[ti+1:]...)
	var d []Decision
	for _, x := range s.Decisions {
		if x.T == ti {
			continue
		}
		if x.T > ti {
			x.T--
		}
		d = append(d, x)
	}
	s.Decisions = d
}

func (sh *shrinker) minimise(s *Script) *Script {
	cur := s
	minTasks := 1
	for round := 0; round < 6 && !sh.timeUp(); round++ {
		before := fmt.Sprint(*sizeOf(cur))
		// 1. tasks
		for ti := len(cur.Tasks) - 1; ti >= 0 && len(cur.Tasks) > minTasks; ti-- {
			if cur.Prop == "C17" && ti == 0 {
				continue
			}
			ti := ti
			sh.try(&cur, func(c *Script) bool {
				if ti >= len(c.Tasks) {
					return false
				}
				dropTask(c, ti)
				return true
			})
		}
		// 2. operations, in shrinking chunks
		for ti := range cur.Tasks {
			for k := len(cur.Tasks[ti]); k >= 1; k /= 2 {
				for i := len(cur.Tasks[ti]) - k; i >= 0; i -= k {
					ti, i, k := ti, i, k
					sh.try(&cur, func(c *Script) bool {
						if ti >= len(c.Tasks) || i+k > len(c.Tasks[ti]) || i < 0 {
							return false
						}
						c.Tasks[ti] = append(c.Tasks[ti][:i:i], c.Tasks[ti][i+k:]...)
						return true
					})
					if sh.timeUp() {
						break
					}
				}
			}
		}
		// 3. scheduling decisions: none at all, then chunks
		if len(cur.Decisions) > 0 {
			sh.try(&cur, func(c *Script) bool { c.Decisions = nil; c.Strategy = "sequential"; return true })
			for k := len(cur.Decisions) / 2; k >= 1 && len(cur.Decisions) > 0; k /= 2 {
				for i := len(cur.Decisions) - k; i >= 0; i -= k {
					i, k := i, k
					sh.try(&cur, func(c *Script) bool {
						if i+k > len(c.Decisions) || i < 0 {
							return false
						}
						c.Decisions = append(c.Decisions[:i:i], c.Decisions[i+k:]...)
						return true
					})
					if sh.timeUp() {
						break
					}
				}
				if len(cur.Decisions) > 400 && k < len(cur.Decisions)/16 {
					break // long schedules: stop at coarse granularity
				}
			}
		}
		// 4. perturbation flags
		for ti := range cur.Tasks {
			for oi := range cur.Tasks[ti] {
				for pi := len(cur.Tasks[ti][oi].P) - 1; pi >= 0; pi-- {
					ti, oi, pi := ti, oi, pi
					sh.try(&cur, func(c *Script) bool {
						p := c.Tasks[ti][oi].P
						if pi >= len(p) {
							return false
						}
						c.Tasks[ti][oi].P = append(p[:pi:pi], p[pi+1:]...)
						return true
					})
				}
			}
		}
		// 5. inputs: whole entries, paths, vertices
		for ei := range cur.Pool {
			ei := ei
			if len(cur.Pool[ei].P64)+len(cur.Pool[ei].PD) == 0 {
				continue
			}
			if sh.try(&cur, func(c *Script) bool { c.Pool[ei].P64, c.Pool[ei].PD = nil, nil; return true }) {
				continue
			}
			for pi := len(cur.Pool[ei].P64) - 1; pi >= 0; pi-- {
				pi := pi
				sh.try(&cur, func(c *Script) bool {
					p := c.Pool[ei].P64
					if pi >= len(p) {
						return false
					}
					c.Pool[ei].P64 = append(p[:pi:pi], p[pi+1:]...)
					return true
				})
			}
			for pi := len(cur.Pool[ei].PD) - 1; pi >= 0; pi-- {
				pi := pi
				sh.try(&cur, func(c *Script) bool {
					p := c.Pool[ei].PD
					if pi >= len(p) {
						return false
					}
					c.Pool[ei].PD = append(p[:pi:pi], p[pi+1:]...)
					return true
				})
			}
			sh.try(&cur, func(c *Script) bool {
				if c.Pool[ei].Slack == 0 {
					return false
				}
				c.Pool[ei].Slack = 0
				return true
			})
			for pi := range cur.Pool[ei].P64 {
				for k := len(cur.Pool[ei].P64[pi]) / 4; k >= 1; k /= 2 {
					for i := len(cur.Pool[ei].P64[pi])/2 - k; i >= 0; i -= k {
						pi, i, k := pi, i, k
						sh.try(&cur, func(c *Script) bool {
							p := c.Pool[ei].P64[pi]
							if 2*(i+k) > len(p) || i < 0 {
								return false
							}
							c.Pool[ei].P64[pi] = append(p[:2*i:2*i], p[2*(i+k):]...)
							return true
						})
						if sh.timeUp() {
							break
						}
					}
				}
			}
			for pi := range cur.Pool[ei].PD {
				for k := len(cur.Pool[ei].PD[pi]) / 4; k >= 1; k /= 2 {
					for i := len(cur.Pool[ei].PD[pi])/2 - k; i >= 0; i -= k {
						pi, i, k := pi, i, k
						sh.try(&cur, func(c *Script) bool {
							p := c.Pool[ei].PD[pi]
							if 2*(i+k) > len(p) || i < 0 {
								return false
							}
							c.Pool[ei].PD[pi] = append(p[:2*i:2*i], p[2*(i+k):]...)
							return true
						})
						if sh.timeUp() {
							break
						}
					}
				}
			}
		}
		// 6. coordinates towards zero
		for ei := range cur.Pool {
			ei := ei
			for step := 0; step < 12; step++ {
				if !sh.try(&cur, func(c *Script) bool {
					changed := false
					for _, p := range c.Pool[ei].P64 {
						for i := range p {
							if p[i] != p[i]/2 {
								p[i] /= 2
								changed = true
							}
						}
					}
					for _, p := range c.Pool[ei].PD {
						for i := range p {
							h := math.Round(p[i]*50) / 100
							if h != p[i] {
								p[i] = h
								changed = true
							}
						}
					}
					return changed
				}) {
					break
				}
			}
		}
		if fmt.Sprint(*sizeOf(cur)) == before {
			break
		}
	}
	return cur
}

// triage confirms a violation found by a worker in a fresh process, minimises
// it and returns the replay record.
func (c *coord) triage(it foundItem, want Violation, capS float64) *Replay {
	s := it.fv.Script
	rep := &Replay{Property: c.prop, Script: s, Violation: want, Original: sizeOf(s), RaceLog: it.fv.RaceLog, Env: envBase.name}
	for _, v := range it.fv.Violations {
		if v.Class != want.Class || v.Symptom != want.Symptom {
			rep.AlsoSeen = append(rep.AlsoSeen, v)
		}
	}
	if want.Class == "cross-process" && it.fv.Cross != nil {
		// first as a property of the single run (literal script under several
		// environments), then as a property of the batch
		if v, _, err := c.reproduces(s, &want); err == nil && v != nil {
			rep.Violation = *v
			rep.Key = findingKey(c.prop, v)
			rep.Minimised = sizeOf(s)
			return rep
		}
		if v := c.crossReproduces(it.fv.Cross, &want); v != nil {
			rep.Kind = "cross-process-batch"
			rep.Cross = it.fv.Cross
			rep.Violation = *v
			rep.Key = findingKey(c.prop, v)
			rep.Minimised = sizeOf(s)
			return rep
		}
		rep.Infra = "a difference between two processes running the same runs did not show again"
		return rep
	}
	sh := &shrinker{c: c, want: want, deadline: time.Now().Add(time.Duration(capS * float64(time.Second)))}
	if c.prop == "C17" {
		sh.attempts = 6
	}
	// literal replay in a fresh process must reproduce the violation
	if !sh.test(s) {
		// The violation may depend on state the process accumulated in the
		// runs before this one (a cache or buffer of the code under test that
		// outlives a call). The worker is a pure function of (seed, run
		// range), so replay the shortest range of runs that ends in this one.
		run := s.Run
		for _, back := range []int{1, 3, 7, 15, 31, 63, 127, run - it.from} {
			from := run - back
			if from < it.from {
				from = it.from
			}
			if v := c.prefixReproduces(from, run, &want); v != nil {
				rep.Kind = "seeded-prefix"
				rep.Prefix = &PrefixReplay{Seed: c.seed, From: from, Run: run, Tier: c.tier}
				rep.Violation = *v
				rep.Key = findingKey(c.prop, v)
				rep.Minimised = sizeOf(s)
				rep.Tried = sh.tried
				return rep
			}
			if from == it.from {
				break
			}
		}
		rep.Infra = fmt.Sprintf("violation %s/%s at %s seen by the worker reproduced neither from its script nor from its run range in a fresh process", want.Class, want.Symptom, want.OpKind)
		return rep
	}
	if want.Class == "cross-process" {
		rep.Violation = *sh.last
		rep.Key = findingKey(c.prop, &rep.Violation)
		rep.Minimised = sizeOf(s)
		return rep
	}
	sh.inproc = c.prop == "C12"
	confirmAttempts := sh.attempts
	sh.attempts = 1
	if confirmAttempts > 1 {
		sh.attempts = 2
	}
	min := sh.minimise(s)
	sh.attempts = confirmAttempts
	// the minimised script must itself reproduce in a fresh process
	sh.inproc = false
	sh.deadline = time.Now().Add(30 * time.Second)
	if !sh.test(min) {
		min = s
		if !sh.test(min) {
			rep.Infra = "minimised and original script stopped reproducing in a fresh process"
			return rep
		}
	}
	rep.Script = min
	rep.Minimised = sizeOf(min)
	rep.Tried = sh.tried
	rep.Violation = *sh.last
	if sh.lastLog != "" {
		rep.RaceLog = sh.lastLog
	}
	rep.Key = findingKey(c.prop, &rep.Violation)
	return rep
}

// prefixReproduces re-runs the runs [from, run] in one fresh worker process
// and returns the matching violation of the last run, if it occurs again.
func (c *coord) prefixReproduces(from, run int, want *Violation) *Violation {
	out := c.tmpFile("p")
	cmd := c.command(envBase, "worker", "-prop", c.prop, "-seed", fmt.Sprint(c.seed), "-from", fmt.Sprint(from), "-to", fmt.Sprint(run+1), "-tier", c.tier, "-out", out, "-keep", "100000", "-cold", fmt.Sprint(c.coldRun(from)))
	if err := cmd.Run(); err != nil {
		return nil
	}
	defer os.Remove(out)
	var w WorkerOut
	if !readJSON(out, &w) {
		return nil
	}
	for _, f := range w.Found {
		if f.Script.Run == run {
			return matchViolation(f.Violations, want)
		}
	}
	return nil
}
