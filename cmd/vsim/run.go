package main

import (
	"fmt"
	"hash/fnv"
	"math/rand/v2"
	"runtime"
	"strings"

	"vsimrt"
)

// ---------------------------------------------------------------------------
// Choosers
// ---------------------------------------------------------------------------

// seqChooser runs the lowest live, non-blocked task without preemption.
type seqChooser struct{}

func (seqChooser) Next(live []int, blocked []bool) (int, int64, int64) {
	for i, id := range live {
		if !blocked[i] {
			return id, 0, 0
		}
	}
	return live[0], 0, 0
}

// rngChooser draws the schedule from the run's PRNG and records every
// decision so that the run can be replayed literally.
type rngChooser struct {
	r         *rand.Rand
	strategy  string // uniform | pct | adversary
	meanSeg   int64
	sharedP   float64
	prio      []int   // pct: priorities by task id
	change    []int64 // pct: remaining steps until the next priority change
	est       int64
	decisions []Decision
	lowPrio   int
	targetSw  int64
}

func newRngChooser(r *rand.Rand, strategy string, nTasks int, est int64) *rngChooser {
	c := &rngChooser{r: r, strategy: strategy, est: est}
	// the number of context switches aimed at in this run (the mean segment
	// length follows from the estimated length of the run)
	c.targetSw = []int64{8, 40, 200, 1000, 4000}[r.IntN(5)]
	c.setEstimate(est)
	c.sharedP = []float64{0.3, 0.7, 1}[r.IntN(3)]
	if strategy == "pct" {
		c.prio = r.Perm(nTasks + 8)
		d := 1 + r.IntN(3)
		if est < 10 {
			est = 10
		}
		for i := 0; i < d; i++ {
			c.change = append(c.change, 1+r.Int64N(est))
		}
	}
	return c
}

func (c *rngChooser) setEstimate(est int64) {
	c.est = est
	c.meanSeg = est / c.targetSw
	if c.meanSeg < 2 {
		c.meanSeg = 2
	}
}

func (c *rngChooser) Next(live []int, blocked []bool) (int, int64, int64) {
	var cand []int
	for i, id := range live {
		if !blocked[i] {
			cand = append(cand, id)
		}
	}
	if len(cand) == 0 {
		cand = live
	}
	var d Decision
	switch c.strategy {
	case "pct":
		best := cand[0]
		for _, id := range cand {
			if c.prioOf(id) > c.prioOf(best) {
				best = id
			}
		}
		n := int64(0)
		if len(c.change) > 0 {
			n = c.change[0]
			c.change = c.change[1:]
			// after this segment the running task drops below everyone
			c.lowPrio--
			c.setPrio(best, c.lowPrio)
		}
		d = Decision{T: best, N: n}
	case "adversary":
		id := cand[c.r.IntN(len(cand))]
		n := 1 + c.r.Int64N(2*c.meanSeg)
		sh := int64(0)
		if c.r.Float64() < c.sharedP {
			sh = 1 + int64(c.r.IntN(2))
		}
		d = Decision{T: id, N: n, Sh: sh}
	default:
		id := cand[c.r.IntN(len(cand))]
		d = Decision{T: id, N: 1 + c.r.Int64N(2*c.meanSeg)}
	}
	c.decisions = append(c.decisions, d)
	return d.T, d.N, d.Sh
}

func (c *rngChooser) prioOf(id int) int {
	if id < len(c.prio) {
		return c.prio[id]
	}
	return -1000 - id
}
func (c *rngChooser) setPrio(id, p int) {
	for len(c.prio) <= id {
		c.prio = append(c.prio, -1000-len(c.prio))
	}
	c.prio[id] = p
}

// replayChooser replays recorded decisions; when they run out (or name a
// finished task) it falls back to sequential execution.
type replayChooser struct {
	dec  []Decision
	pos  int
	used int
}

func (c *replayChooser) Next(live []int, blocked []bool) (int, int64, int64) {
	for c.pos < len(c.dec) {
		d := c.dec[c.pos]
		c.pos++
		for _, id := range live {
			if id == d.T {
				c.used++
				return d.T, d.N, d.Sh
			}
		}
	}
	return seqChooser{}.Next(live, blocked)
}

// ---------------------------------------------------------------------------
// Executing a script
// ---------------------------------------------------------------------------

type RunResult struct {
	Violations []Violation      `json:"violations,omitempty"`
	Outcomes   [][]Outcome      `json:"-"`
	Decisions  []Decision       `json:"-"`
	Trace      []vsimrt.Segment `json:"-"`
	Stats      *TaskStats       `json:"-"`
	Switches   [4]int64         `json:"-"` // total, shared, dep, callback
	Deadlock   bool             `json:"-"`
	Races      int              `json:"-"`
	Digest     uint64           `json:"-"`
	SchedHash  uint64           `json:"-"`
	Shape      uint64           `json:"-"`
	Pool       vsimrt.PoolStatsT
}

func (r *RunResult) addViol(v ...Violation) { r.Violations = append(r.Violations, v...) }

func materialise(s *Script) []*Input {
	pool := make([]*Input, len(s.Pool))
	for i := range s.Pool {
		pool[i] = s.Pool[i].materialise()
	}
	return pool
}

func poolDigest(pool []*Input) uint64 {
	h := fnv.New64a()
	for _, in := range pool {
		var d uint64
		if in.isD {
			d = digestD(in.pd)
		} else {
			d = digest64(in.p64)
		}
		fmt.Fprintf(h, "%x;", d)
	}
	return h.Sum64()
}

func outcomesDigest(outs [][]Outcome) uint64 {
	h := fnv.New64a()
	for _, t := range outs {
		for i := range t {
			h.Write([]byte(t[i].key()))
			h.Write([]byte{0})
		}
		h.Write([]byte{1})
	}
	return h.Sum64()
}

func schedHash(tr []vsimrt.Segment) uint64 {
	h := fnv.New64a()
	for _, s := range tr {
		fmt.Fprintf(h, "%d:%d:%d;", s.Task, s.Site, s.Why)
	}
	return h.Sum64()
}

func traceDigest(tr []vsimrt.Segment) uint64 {
	h := fnv.New64a()
	for _, s := range tr {
		fmt.Fprintf(h, "%d:%d:%d:%d;", s.Task, s.Steps, s.Site, s.Why)
	}
	return h.Sum64()
}

func shapeOf(s *Script) uint64 {
	h := fnv.New64a()
	for _, t := range s.Tasks {
		for _, op := range t {
			h.Write([]byte(op.K))
			h.Write([]byte(strings.Join(op.P, ",")))
			h.Write([]byte{';'})
		}
		h.Write([]byte{'|'})
	}
	return h.Sum64()
}

// runTasksSim runs fns as simulator tasks under ch.
func runTasksSim(fns []func(), ch vsimrt.Chooser, res *RunResult) *vsimrt.Sched {
	sch := vsimrt.NewSched(ch)
	sch.MaxSegs = 4_000_000
	sch.Run(fns)
	if len(sch.Escaped) > 0 {
		panic(fmt.Sprintf("harness bug: panic escaped a task: %v", sch.Escaped[0]))
	}
	if res != nil {
		res.Trace = append(res.Trace, sch.Trace...)
		res.Switches[0] += sch.Switches
		res.Switches[1] += sch.SwitchesShared
		res.Switches[2] += sch.SwitchesDep
		res.Switches[3] += sch.SwitchesCb
		if sch.Deadlock {
			res.Deadlock = true
		}
	}
	return sch
}

// execC12 runs a single-task history script with the reference model on.
func execC12(s *Script) *RunResult {
	res := &RunResult{Stats: newStats()}
	pool := materialise(s)
	before := poolDigest(pool)
	vsimrt.SeedPools(s.PoolSeed, s.PoolFresh)
	vsimrt.ResetPoolStats()
	res.Outcomes = make([][]Outcome, len(s.Tasks))
	var ctxs []*Ctx
	for ti := range s.Tasks {
		c := newCtx(ti, pool, true, s.Budget)
		c.judge = true
		ctxs = append(ctxs, c)
	}
	// the tasks of a C12 script (normally one) run one after the other
	runTasksSim([]func(){func() {
		for ti := range s.Tasks {
			res.Outcomes[ti] = ctxs[ti].runScript(s.Tasks[ti])
		}
	}}, seqChooser{}, res)
	for _, c := range ctxs {
		res.addViol(c.viol...)
		res.Stats.merge(c.st)
	}
	if poolDigest(pool) != before {
		res.addViol(Violation{Class: "immutability", Symptom: "pool-modified", Detail: "a pool entry changed although only private copies were handed out"})
	}
	res.Pool = vsimrt.ResetPoolStats()
	res.Digest = outcomesDigest(res.Outcomes)
	res.Shape = shapeOf(s)
	return res
}

// soloOutcomes runs every task's script alone, in order, on one simulator task.
func soloOutcomes(s *Script, pool []*Input, res *RunResult, stats *TaskStats) ([][]Outcome, []Violation) {
	outs := make([][]Outcome, len(s.Tasks))
	var viol []Violation
	runTasksSim([]func(){func() {
		for ti := range s.Tasks {
			c := newCtx(ti, pool, false, s.Budget)
			c.noFmt = s.Prop == "C18"
			outs[ti] = c.runScript(s.Tasks[ti])
			viol = append(viol, c.viol...)
			if stats != nil {
				stats.merge(c.st)
			}
		}
	}}, seqChooser{}, nil)
	return outs, viol
}

func estSteps(outs [][]Outcome) int64 {
	var n int64
	for _, t := range outs {
		for i := range t {
			n += t[i].Steps
		}
	}
	return n
}

// execC18 runs the solo and the concurrent phase and compares them.
func execC18(s *Script, ch vsimrt.Chooser) *RunResult {
	res := &RunResult{Stats: newStats()}
	pool := materialise(s)
	before := poolDigest(pool)
	vsimrt.SeedPools(s.PoolSeed, s.PoolFresh)
	vsimrt.ResetPoolStats()
	races0 := vsimrt.RaceErrors()

	var solo [][]Outcome
	var soloViol []Violation
	doSolo := func() { solo, soloViol = soloOutcomes(s, pool, res, nil) }
	if s.SoloFirst {
		doSolo()
	}
	if rc, ok := ch.(*rngChooser); ok && s.SoloFirst {
		// segment lengths and change points relative to the measured length of the run
		est := estSteps(solo)
		if est < 10 {
			est = 10
		}
		rc.setEstimate(est)
		for i := range rc.change {
			rc.change[i] = 1 + rc.change[i]%est
		}
	}
	ctxs := make([]*Ctx, len(s.Tasks))
	conc := make([][]Outcome, len(s.Tasks))
	fns := make([]func(), len(s.Tasks))
	for ti := range s.Tasks {
		ti := ti
		ctxs[ti] = newCtx(ti, pool, false, s.Budget)
		ctxs[ti].noFmt = true
		fns[ti] = func() { conc[ti] = ctxs[ti].runScript(s.Tasks[ti]) }
	}
	runTasksSim(fns, ch, res)
	if !s.SoloFirst {
		doSolo()
	}
	res.Outcomes = conc
	if rc, ok := ch.(*rngChooser); ok {
		res.Decisions = rc.decisions
	}
	for _, c := range ctxs {
		res.addViol(c.viol...)
		res.Stats.merge(c.st)
	}
	_ = soloViol // the same monitors fire in the concurrent phase; solo ones would be duplicates
	if res.Deadlock {
		res.addViol(Violation{Class: "deadlock", Symptom: "deadlock", Detail: "all tasks blocked on simulated primitives: some call never returns under this schedule"})
	} else {
		for ti := range s.Tasks {
			for i := range s.Tasks[ti] {
				if i >= len(conc[ti]) || i >= len(solo[ti]) {
					continue
				}
				if !sameOutcome(&conc[ti][i], &solo[ti][i]) {
					res.addViol(Violation{Class: "concurrent-outcome", Task: ti, OpIndex: i, OpKind: s.Tasks[ti][i].K,
						Symptom: symptomOf(&conc[ti][i], &solo[ti][i]),
						Detail:   "the call returned something else than when it runs alone",
						Expected: clipStr(solo[ti][i].key()), Observed: clipStr(conc[ti][i].key())})
					break
				}
			}
		}
	}
	if poolDigest(pool) != before {
		res.addViol(Violation{Class: "shared-input", Symptom: "input-modified", Detail: "a shared read-only input was modified"})
	}
	if n := vsimrt.RaceErrors() - races0; n > 0 {
		res.Races = n
		res.addViol(Violation{Class: "race", Symptom: "data-race", Detail: fmt.Sprintf("%d data race report(s) by the Go race detector during this run", n)})
	}
	res.Pool = vsimrt.ResetPoolStats()
	res.Digest = outcomesDigest(conc) ^ traceDigest(res.Trace)
	res.SchedHash = schedHash(res.Trace)
	res.Shape = shapeOf(s)
	return res
}

// ---------------------------------------------------------------------------
// C17: repeat the subject script under perturbations
// ---------------------------------------------------------------------------

var c17Variants = []string{"immediate", "gc", "heap-churn", "new-goroutine", "pool-recycle", "interleaved"}

var sink [][]byte

func churn(seed uint64) {
	r := rand.New(rand.NewPCG(seed, 99))
	sink = sink[:0]
	for i := 0; i < 200; i++ {
		sink = append(sink, make([]byte, 1+r.IntN(1<<r.IntN(14))))
	}
	if r.IntN(2) == 0 {
		sink = nil
	}
}

//go:noinline
func deepCall(n int, f func()) int {
	var pad [256]byte
	pad[n%256] = byte(n)
	if n <= 0 {
		f()
		return int(pad[0])
	}
	return deepCall(n-1, f) + int(pad[n%256])
}

func execC17(s *Script, ch vsimrt.Chooser) *RunResult {
	res := &RunResult{Stats: newStats()}
	pool := materialise(s)
	before := poolDigest(pool)
	vsimrt.SeedPools(s.PoolSeed, s.PoolFresh)
	vsimrt.ResetPoolStats()
	if len(s.Tasks) == 0 {
		return res
	}
	subject := s.Tasks[0]
	runAlone := func(wrap func(func())) []Outcome {
		var outs []Outcome
		var viol []Violation
		body := func() {
			c := newCtx(0, pool, false, s.Budget)
			outs = c.runScript(subject)
			viol = c.viol
			res.Stats.merge(c.st)
		}
		runTasksSim([]func(){func() {
			if wrap != nil {
				wrap(body)
			} else {
				body()
			}
		}}, seqChooser{}, nil)
		res.addViol(viol...)
		return outs
	}
	ref := runAlone(nil)
	compare := func(variant string, got []Outcome) {
		res.Stats.Fired[variant]++
		for i := range subject {
			if i >= len(got) || i >= len(ref) {
				return
			}
			res.Stats.Judged["repeat/"+variant+"/"+subject[i].K]++
			if !sameOutcome(&got[i], &ref[i]) {
				res.addViol(Violation{Class: "repeat", Task: 0, OpIndex: i, OpKind: subject[i].K, Pert: variant,
					Symptom: symptomOf(&got[i], &ref[i]), Detail: "the same operation with equal inputs returned something else on the repeat (" + variant + ")",
					Expected: clipStr(ref[i].key()), Observed: clipStr(got[i].key())})
				return
			}
		}
	}
	compare("immediate", runAlone(nil))
	runtime.GC()
	compare("gc", runAlone(nil))
	churn(s.PoolSeed)
	compare("heap-churn", runAlone(nil))
	depth := int(s.PoolSeed % 97)
	compare("new-goroutine", runAlone(func(f func()) { deepCall(depth, f) }))
	vsimrt.SeedPools(s.PoolSeed^0xABCDEF, (s.PoolFresh+500)%1000)
	compare("pool-recycle", runAlone(nil))
	vsimrt.SeedPools(s.PoolSeed, s.PoolFresh)
	if len(s.Tasks) > 1 {
		conc := make([][]Outcome, len(s.Tasks))
		ctxs := make([]*Ctx, len(s.Tasks))
		fns := make([]func(), len(s.Tasks))
		for ti := range s.Tasks {
			ti := ti
			ctxs[ti] = newCtx(ti, pool, false, s.Budget)
			fns[ti] = func() { conc[ti] = ctxs[ti].runScript(s.Tasks[ti]) }
		}
		runTasksSim(fns, ch, res)
		if rc, ok := ch.(*rngChooser); ok {
			res.Decisions = rc.decisions
		}
		for _, c := range ctxs {
			res.Stats.merge(c.st)
		}
		if !res.Deadlock {
			compare("interleaved", conc[0])
		}
	}
	if poolDigest(pool) != before {
		res.addViol(Violation{Class: "shared-input", Symptom: "input-modified", Detail: "an input was modified"})
	}
	res.Outcomes = [][]Outcome{ref}
	res.Pool = vsimrt.ResetPoolStats()
	res.Digest = outcomesDigest(res.Outcomes)
	res.Shape = shapeOf(s)
	return res
}

// ---------------------------------------------------------------------------
// Script generation per property
// ---------------------------------------------------------------------------

func genScript(prop string, seed uint64, run int, big bool) (*Script, *rand.Rand) {
	g := newGen(seed, run, big)
	g.initPool()
	s := &Script{Prop: prop, Seed: seed, Run: run, Budget: 2_000_000}
	s.PoolSeed = g.r.Uint64()
	// 1000: Get never recycles, so tasks never synchronise through a pool and
	// the race detector sees every cross-task conflict; lower values make
	// cross-task recycling (and use-after-Put bugs) common
	s.PoolFresh = []int{0, 100, 250, 500, 1000, 1000, 1000}[g.n(7)]
	switch prop {
	case "C12":
		nObj := g.rng(1, 3)
		nFn := g.n(4)
		s.Tasks = [][]Op{g.taskScript(nObj, nFn, true)}
	case "C17":
		// subject: a single call, or a whole object history
		var subject []Op
		if g.p(0.6) {
			subject = []Op{g.fnOp()}
			if g.p(0.3) {
				subject = append(subject, g.fnOp())
			}
		} else {
			subject = g.history(0, false)
		}
		s.Tasks = [][]Op{subject}
		for i, n := 0, g.rng(1, 3); i < n; i++ {
			s.Tasks = append(s.Tasks, g.taskScript(g.n(2), g.rng(1, 3), false))
		}
		s.Strategy = []string{"uniform", "adversary", "pct"}[g.n(3)]
	case "C18":
		nT := g.rng(2, 4)
		for i := 0; i < nT; i++ {
			s.Tasks = append(s.Tasks, g.taskScript(g.n(3), g.rng(1, 4), false))
		}
		s.Strategy = []string{"uniform", "adversary", "adversary", "pct"}[g.n(4)]
		s.SoloFirst = g.p(0.6)
	}
	s.Pool = g.pool
	return s, g.r
}

func execScript(s *Script, r *rand.Rand) *RunResult {
	var ch vsimrt.Chooser
	if len(s.Decisions) > 0 || r == nil {
		ch = &replayChooser{dec: s.Decisions}
	} else {
		ch = newRngChooser(r, s.Strategy, len(s.Tasks), 200000)
	}
	vsimrt.Tick()
	switch s.Prop {
	case "C12":
		return execC12(s)
	case "C17":
		return execC17(s, ch)
	default:
		return execC18(s, ch)
	}
}
