package main

import (
	"fmt"
	"os"
	"hash/fnv"
	"math/rand/v2"
	"runtime"
	"strings"

	"vsimrt"
)

// ---------------------------------------------------------------------------
// Choosers
// ---------------------------------------------------------------------------

// seqChooser runs the lowest live, non-blocked task without preemption.
type seqChooser struct{}

func (seqChooser) Next(live []int, blocked []bool) (int, int64, int64) {
	for i, id := range live {
		if !blocked[i] {
			return id, 0, 0
		}
	}
	return live[0], 0, 0
}

// rngChooser draws the schedule from the run's PRNG and records every
// decision so that the run can be replayed literally.
type rngChooser struct {
	r         *rand.Rand
	strategy  string // uniform | pct | adversary
	meanSeg   int64
	sharedP   float64
	prio      []int   // pct: priorities by task id
	change    []int64 // pct: remaining steps until the next priority change
	est       int64
	decisions []Decision
	lowPrio   int
	targetSw  int64
}

func newRngChooser(r *rand.Rand, strategy string, nTasks int, est int64) *rngChooser {
	c := &rngChooser{r: r, strategy: strategy, est: est}
	// the number of context switches aimed at in this run (the mean segment
	// length follows from the estimated length of the run)
	c.targetSw = []int64{8, 40, 200, 1000, 4000}[r.IntN(5)]
	c.setEstimate(est)
	c.sharedP = []float64{0.3, 0.7, 1}[r.IntN(3)]
	if strategy == "pct" {
		c.prio = r.Perm(nTasks + 8)
		d := 1 + r.IntN(3)
		if est < 10 {
			est = 10
		}
		for i := 0; i < d; i++ {
			c.change = append(c.change, 1+r.Int64N(est))
		}
	}
	return c
}

func (c *rngChooser) setEstimate(est int64) {
	c.est = est
	c.meanSeg = est / c.targetSw
	if c.meanSeg < 2 {
		c.meanSeg = 2
	}
}

func (c *rngChooser) Next(live []int, blocked []bool) (int, int64, int64) {
	var cand []int
	for i, id := range live {
		if !blocked[i] {
			cand = append(cand, id)
		}
	}
	if len(cand) == 0 {
		cand = live
	}
	var d Decision
	switch c.strategy {
	case "pct":
		best := cand[0]
		for _, id := range cand {
			if c.prioOf(id) > c.prioOf(best) {
				best = id
			}
		}
		n := int64(0)
		if len(c.change) > 0 {
			n = c.change[0]
			c.change = c.change[1:]
			// after this segment the running task drops below everyone
			c.lowPrio--
			c.setPrio(best, c.lowPrio)
		}
		d = Decision{T: best, N: n}
	case "adversary":
		id := cand[c.r.IntN(len(cand))]
		n := 1 + c.r.Int64N(2*c.meanSeg)
		sh := int64(0)
		if c.r.Float64() < c.sharedP {
			sh = 1 + int64(c.r.IntN(2))
		}
		d = Decision{T: id, N: n, Sh: sh}
	default:
		id := cand[c.r.IntN(len(cand))]
		d = Decision{T: id, N: 1 + c.r.Int64N(2*c.meanSeg)}
	}
	c.decisions = append(c.decisions, d)
	return d.T, d.N, d.Sh
}

func (c *rngChooser) prioOf(id int) int {
	if id < len(c.prio) {
		return c.prio[id]
	}
	return -1000 - id
}
func (c *rngChooser) setPrio(id, p int) {
	for len(c.prio) <= id {
		c.prio = append(c.prio, -1000-len(c.prio))
	}
	c.prio[id] = p
}

// replayChooser replays recorded decisions; when they run out (or name a
// finished task) it falls back to sequential execution.
type replayChooser struct {
	dec  []Decision
	pos  int
	used int
}

func (c *replayChooser) Next(live []int, blocked []bool) (int, int64, int64) {
	for c.pos < len(c.dec) {
		d := c.dec[c.pos]
		c.pos++
		for _, id := range live {
			if id == d.T {
				c.used++
				return d.T, d.N, d.Sh
			}
		}
	}
	return seqChooser{}.Next(live, blocked)
}

// ---------------------------------------------------------------------------
// Executing a script
// ---------------------------------------------------------------------------

type RunResult struct {
	Violations []Violation      `json:"violations,omitempty"`
	Outcomes   [][]Outcome      `json:"-"`
	Decisions  []Decision       `json:"-"`
	Trace      []vsimrt.Segment `json:"-"`
	Stats      *TaskStats       `json:"-"`
	Switches   [4]int64         `json:"-"` // total, shared, dep, callback
	Deadlock   bool             `json:"-"`
	Aborted    bool             `json:"-"`
	Killed     bool             `json:"-"`
	Crash      string           `json:"-"`
	Races      int              `json:"-"`
	Digest     uint64           `json:"-"`
	SchedHash  uint64           `json:"-"`
	Shape      uint64           `json:"-"`
	Pool       vsimrt.PoolStatsT
}

func (r *RunResult) addViol(v ...Violation) { r.Violations = append(r.Violations, v...) }

func materialise(s *Script) []*Input {
	pool := make([]*Input, len(s.Pool))
	for i := range s.Pool {
		pool[i] = s.Pool[i].materialise()
	}
	return pool
}

func poolDigest(pool []*Input) uint64 {
	h := fnv.New64a()
	for _, in := range pool {
		var d uint64
		if in.isD {
			d = digestD(in.pd)
		} else {
			d = digest64(in.p64)
		}
		fmt.Fprintf(h, "%x;", d)
	}
	return h.Sum64()
}

// outcomesDigest digests the outcomes for comparison between processes. An
// operation that was cut off by the step budget, or finished above half of
// it, contributes a neutral token and ends its task's contribution: step
// counts may differ a little between processes (work done once per process),
// which must not look like a different result.
func outcomesDigest(outs [][]Outcome, budget int64) uint64 {
	h := fnv.New64a()
	for _, t := range outs {
		for i := range t {
			if t[i].Diverged || (budget > 0 && t[i].Steps > budget/2) {
				h.Write([]byte("at-the-step-budget"))
				break
			}
			h.Write([]byte(t[i].key()))
			h.Write([]byte{0})
		}
		h.Write([]byte{1})
	}
	return h.Sum64()
}

// schedHash identifies the interleaving: the sequence of preemptions (task,
// stop site). It is 0 for a run without any context switch inside library
// code.
func schedHash(tr []vsimrt.Segment) uint64 {
	h := fnv.New64a()
	n := 0
	for _, s := range tr {
		if (s.Why == vsimrt.WhySeg || s.Why == vsimrt.WhyShared) && s.Site < vsimrt.SiteCallbackBase {
			fmt.Fprintf(h, "%d:%d:%d;", s.Task, s.Site, s.Why)
			n++
		}
	}
	if n == 0 {
		return 0
	}
	return h.Sum64()
}

func traceDigest(tr []vsimrt.Segment) uint64 {
	h := fnv.New64a()
	for _, s := range tr {
		fmt.Fprintf(h, "%d:%d:%d:%d;", s.Task, s.Steps, s.Site, s.Why)
	}
	return h.Sum64()
}

func shapeOf(s *Script) uint64 {
	h := fnv.New64a()
	for _, t := range s.Tasks {
		for _, op := range t {
			h.Write([]byte(op.K))
			h.Write([]byte(strings.Join(op.P, ",")))
			h.Write([]byte{';'})
		}
		h.Write([]byte{'|'})
	}
	return h.Sum64()
}

// runTasksSim runs fns as simulator tasks under ch.
func runTasksSim(fns []func(), ch vsimrt.Chooser, res *RunResult) *vsimrt.Sched {
	sch := vsimrt.NewSched(ch)
	sch.MaxSegs = 4_000_000
	sch.MaxTotalSteps = 400_000_000
	sch.Run(fns)
	for _, ep := range sch.Escaped {
		if ep.Root {
			panic(fmt.Sprintf("harness bug: panic escaped root task %d: %v", ep.Task, ep.Val))
		}
	}
	if len(sch.Escaped) > 0 && res != nil {
		res.Crash = "unrecovered panic in a goroutine started by the library (the real process would die): " + panicText(sch.Escaped[0].Val)
	}
	if res != nil {
		res.Trace = append(res.Trace, sch.Trace...)
		res.Switches[0] += sch.Switches
		res.Switches[1] += sch.SwitchesShared
		res.Switches[2] += sch.SwitchesDep
		res.Switches[3] += sch.SwitchesCb
		if sch.Deadlock {
			res.Deadlock = true
		}
		if sch.Aborted {
			res.Aborted = true
		}
		if sch.Killed {
			res.Killed = true
		}
	}
	return sch
}

// execC12 runs a single-task history script with the reference model on.
func execC12(s *Script) *RunResult {
	res := &RunResult{Stats: newStats()}
	pool := materialise(s)
	before := poolDigest(pool)
	vsimrt.SeedPools(s.PoolSeed, s.PoolFresh)
	vsimrt.ResetPoolStats()
	res.Outcomes = make([][]Outcome, len(s.Tasks))
	var ctxs []*Ctx
	for ti := range s.Tasks {
		c := newCtx(ti, pool, true, s.Budget)
		c.judge = true
		ctxs = append(ctxs, c)
	}
	// the tasks of a C12 script (normally one) run one after the other
	runTasksSim([]func(){func() {
		for ti := range s.Tasks {
			res.Outcomes[ti] = ctxs[ti].runScript(s.Tasks[ti])
		}
	}}, seqChooser{}, res)
	for _, c := range ctxs {
		res.addViol(c.viol...)
		res.Stats.merge(c.st)
	}
	if res.Crash != "" || res.Deadlock || res.Aborted {
		res.Stats.Judged["inconclusive: history cut short (internal goroutine crashed, deadlock or step cap)"]++
	}
	if poolDigest(pool) != before {
		res.addViol(Violation{Class: "immutability", Symptom: "pool-modified", Detail: "a pool entry changed although only private copies were handed out"})
	}
	res.Pool = vsimrt.ResetPoolStats()
	res.Digest = outcomesDigest(res.Outcomes, s.Budget)
	res.Shape = shapeOf(s)
	return res
}

// soloOutcomes runs every task's script alone, in order, on one simulator task.
func soloOutcomes(s *Script, pool []*Input, res *RunResult, stats *TaskStats) ([][]Outcome, []Violation) {
	outs := make([][]Outcome, len(s.Tasks))
	var viol []Violation
	runTasksSim([]func(){func() {
		for ti := range s.Tasks {
			c := newCtx(ti, pool, false, s.Budget)
			c.noFmt = s.Prop == "C18"
			outs[ti] = c.runScript(s.Tasks[ti])
			viol = append(viol, c.viol...)
			if stats != nil {
				stats.merge(c.st)
			}
		}
	}}, seqChooser{}, crashOnly(res))
	return outs, viol
}

func estSteps(outs [][]Outcome) int64 {
	var n int64
	for _, t := range outs {
		for i := range t {
			n += t[i].Steps
		}
	}
	return n
}

// execC18 runs the solo and the concurrent phase and compares them.
func execC18(s *Script, ch vsimrt.Chooser) *RunResult {
	res := &RunResult{Stats: newStats()}
	pool := materialise(s)
	before := poolDigest(pool)
	vsimrt.SeedPools(s.PoolSeed, s.PoolFresh)
	vsimrt.ResetPoolStats()
	races0 := vsimrt.RaceErrors()

	var solo [][]Outcome
	var soloViol []Violation
	var soloRes RunResult
	doSolo := func() { solo, soloViol = soloOutcomes(s, pool, &soloRes, nil) }
	if s.SoloFirst {
		doSolo()
	}
	if rc, ok := ch.(*rngChooser); ok && s.SoloFirst {
		// segment lengths and change points relative to the measured length of the run
		est := estSteps(solo)
		if est < 10 {
			est = 10
		}
		rc.setEstimate(est)
		for i := range rc.change {
			rc.change[i] = 1 + rc.change[i]%est
		}
	}
	ctxs := make([]*Ctx, len(s.Tasks))
	conc := make([][]Outcome, len(s.Tasks))
	fns := make([]func(), len(s.Tasks))
	for ti := range s.Tasks {
		ti := ti
		ctxs[ti] = newCtx(ti, pool, false, s.Budget)
		ctxs[ti].noFmt = true
		fns[ti] = func() { conc[ti] = ctxs[ti].runScript(s.Tasks[ti]) }
	}
	runTasksSim(fns, ch, res)
	if !s.SoloFirst {
		doSolo()
	}
	res.Outcomes = conc
	if rc, ok := ch.(*rngChooser); ok {
		res.Decisions = rc.decisions
	}
	for _, c := range ctxs {
		res.addViol(c.viol...)
		res.Stats.merge(c.st)
	}
	_ = soloViol // the same monitors fire in the concurrent phase; solo ones would be duplicates
	soloCrash := soloRes.Crash
	if soloRes.Deadlock {
		res.Stats.Judged["inconclusive: the solo execution itself deadlocked"]++
	}
	if res.Aborted || soloRes.Aborted {
		// a goroutine of the code under test ran on beyond the cap on the
		// run's total steps: nothing is concluded from this run
		res.Stats.Judged["inconclusive: run aborted at the total-step cap"]++
	} else if res.Crash != "" || soloCrash != "" {
		if (res.Crash != "") != (soloCrash != "") {
			res.addViol(Violation{Class: "concurrent-outcome", Symptom: "crash-differs", Detail: "an internal goroutine of the library panicked in one phase only; solo: '" + soloCrash + "' concurrent: '" + res.Crash + "'"})
		}
	} else if res.Deadlock {
		res.addViol(Violation{Class: "deadlock", Symptom: "deadlock", Detail: "all tasks blocked on simulated primitives: some call never returns under this schedule"})
	} else {
		for ti := range s.Tasks {
			for i := range s.Tasks[ti] {
				if i >= len(conc[ti]) || i >= len(solo[ti]) {
					continue
				}
				res.Stats.Judged["solo-vs-concurrent outcomes compared"]++
				if budgetEdge(&conc[ti][i], &solo[ti][i], s.Budget) {
					// one execution ran out of steps, the other finished just
					// below the budget: inconclusive, and so is the rest of the task
					res.Stats.Judged["inconclusive: at the edge of the step budget"]++
					break
				}
				if !sameOutcome(&conc[ti][i], &solo[ti][i]) {
					res.addViol(Violation{Class: "concurrent-outcome", Task: ti, OpIndex: i, OpKind: s.Tasks[ti][i].K,
						Symptom: symptomOf(&conc[ti][i], &solo[ti][i]),
						Detail:   "the call returned something else than when it runs alone",
						Expected: clipStr(solo[ti][i].key()), Observed: clipStr(conc[ti][i].key())})
					break
				}
			}
		}
	}
	if os.Getenv("VSIM_DUMP") != "" {
		for ti := range conc {
			for i := range conc[ti] {
				fmt.Fprintf(os.Stderr, "task %d op %d %s steps solo=%d conc=%d same=%v\n  solo: %.200s\n  conc: %.200s\n", ti, i, s.Tasks[ti][i].K, solo[ti][i].Steps, conc[ti][i].Steps, sameOutcome(&conc[ti][i], &solo[ti][i]), solo[ti][i].key(), conc[ti][i].key())
			}
		}
	}
	if poolDigest(pool) != before {
		res.addViol(Violation{Class: "shared-input", Symptom: "input-modified", Detail: "a shared read-only input was modified"})
	}
	if n := vsimrt.RaceErrors() - races0; n > 0 {
		res.Races = n
		res.addViol(Violation{Class: "race", Symptom: "data-race", Detail: fmt.Sprintf("%d data race report(s) by the Go race detector during this run", n)})
	}
	res.Pool = vsimrt.ResetPoolStats()
	res.Digest = outcomesDigest(conc, s.Budget) ^ traceDigest(res.Trace)
	res.SchedHash = schedHash(res.Trace)
	res.Shape = shapeOf(s)
	return res
}

// ---------------------------------------------------------------------------
// C17: repeat the subject script under perturbations
// ---------------------------------------------------------------------------

var c17Variants = []string{"immediate", "gc", "heap-churn", "new-goroutine", "other-pool-stream", "reused-buffers", "after-other-calls", "internal-tasks-rescheduled", "interleaved"}

var sink [][]byte

// churn changes the layout of the heap: it punches holes into the spans of
// the small size classes (so that later allocations come back in another
// address order) and moves the allocation frontier of the large ones.
func churn(seed uint64) {
	r := rand.New(rand.NewPCG(seed, 99))
	sink = sink[:0]
	sizes := []int{8, 16, 24, 32, 48, 64, 80, 96, 112, 128, 144, 160, 176, 192, 208, 224, 256, 320, 384, 512}
	var tmp [][]byte
	for i := 0; i < 6000; i++ {
		b := make([]byte, sizes[r.IntN(len(sizes))])
		if r.IntN(3) == 0 {
			sink = append(sink, b) // stays alive: a hole stays closed
		} else {
			tmp = append(tmp, b) // freed by the GC below: a hole opens
		}
	}
	for i := 0; i < 40; i++ {
		sink = append(sink, make([]byte, 1+r.IntN(1<<r.IntN(15))))
	}
	tmp = nil
	_ = tmp
	runtime.GC()
}

//go:noinline
func deepCall(n int, f func()) int {
	var pad [256]byte
	pad[n%256] = byte(n)
	if n <= 0 {
		f()
		return int(pad[0])
	}
	return deepCall(n-1, f) + int(pad[n%256])
}

func execC17(s *Script, ch vsimrt.Chooser) *RunResult {
	res := &RunResult{Stats: newStats()}
	pool := materialise(s)
	before := poolDigest(pool)
	vsimrt.SeedPools(s.PoolSeed, s.PoolFresh)
	vsimrt.ResetPoolStats()
	if len(s.Tasks) == 0 {
		return res
	}
	subject := s.Tasks[0]
	crashOf := func(r *RunResult) []Outcome {
		// a run that crashed has one outcome: the crash
		return []Outcome{{Enc: "CRASH " + r.Crash}}
	}
	runAlone := func(wrap func(func())) []Outcome {
		var outs []Outcome
		var viol []Violation
		body := func() {
			c := newCtx(0, pool, false, s.Budget)
			outs = c.runScript(subject)
			viol = c.viol
			res.Stats.merge(c.st)
		}
		var local RunResult
		runTasksSim([]func(){func() {
			if wrap != nil {
				wrap(body)
			} else {
				body()
			}
		}}, seqChooser{}, &local)
		if local.Aborted {
			return nil // inconclusive
		}
		if local.Crash != "" {
			return crashOf(&local)
		}
		res.addViol(viol...)
		return outs
	}
	ref := runAlone(nil)
	compare := func(variant string, got []Outcome) {
		if got == nil || ref == nil {
			res.Stats.Fired["inconclusive: run aborted at the total-step cap"]++
			return
		}
		res.Stats.Fired[variant]++
		if len(got) != len(ref) {
			k := subject[0].K
			res.addViol(Violation{Class: "repeat", Task: 0, OpIndex: 0, OpKind: k, Pert: variant, Symptom: "crash-differs",
				Detail:   "one execution ended in an unrecovered panic of an internal goroutine, the other did not (" + variant + ")",
				Expected: clipStr(ref[0].key()), Observed: clipStr(got[0].key())})
			return
		}
		for i := range subject {
			if i >= len(got) || i >= len(ref) {
				return
			}
			res.Stats.Judged["repeat/"+variant+"/"+subject[i].K]++
			if budgetEdge(&got[i], &ref[i], s.Budget) {
				res.Stats.Fired["inconclusive: at the edge of the step budget"]++
				return
			}
			if !sameOutcome(&got[i], &ref[i]) {
				res.addViol(Violation{Class: "repeat", Task: 0, OpIndex: i, OpKind: subject[i].K, Pert: variant,
					Symptom: symptomOf(&got[i], &ref[i]), Detail: "the same operation with equal inputs returned something else on the repeat (" + variant + ")",
					Expected: clipStr(ref[i].key()), Observed: clipStr(got[i].key())})
				return
			}
		}
	}
	compare("immediate", runAlone(nil))
	runtime.GC()
	compare("gc", runAlone(nil))
	churn(s.PoolSeed)
	compare("heap-churn", runAlone(nil))
	depth := int(s.PoolSeed % 97)
	compare("new-goroutine", runAlone(func(f func()) { deepCall(depth, f) }))
	vsimrt.SeedPools(s.PoolSeed^0xABCDEF, (s.PoolFresh+500)%1000)
	compare("other-pool-stream", runAlone(nil))
	vsimrt.SeedPools(s.PoolSeed, s.PoolFresh)
	{
		// the caller refills and reuses its own input buffers: first the same
		// calls on other content of the same shape (discarded), then the
		// subject's content in the very same memory. Equal inputs, equal
		// outputs - whatever the addresses held before.
		bufs := map[int]*Input{}
		runBuf := func(warm bool) []Outcome {
			var outs []Outcome
			var local RunResult
			runTasksSim([]func(){func() {
				c := newCtx(0, pool, false, s.Budget)
				c.reuse, c.warm = bufs, warm
				outs = c.runScript(subject)
				if !warm {
					res.addViol(c.viol...)
				}
			}}, seqChooser{}, &local)
			if local.Aborted {
				return nil
			}
			if local.Crash != "" {
				return crashOf(&local)
			}
			return outs
		}
		runBuf(true)
		compare("reused-buffers", runBuf(false))
	}
	if len(s.Tasks) > 1 {
		// the subject again, after the other tasks' calls have run to
		// completion (a different first call before the second call)
		others := &Script{Prop: "C17", Tasks: s.Tasks[1:], Budget: s.Budget}
		soloOutcomes(others, pool, nil, nil)
		compare("after-other-calls", runAlone(nil))
	}
	{
		// the subject alone again, but with the tasks it starts itself (if the
		// code under test has internal goroutines) scheduled by the PRNG
		var outs []Outcome
		var viol []Violation
		var local2 RunResult
		sch := runTasksSim([]func(){func() {
			c := newCtx(0, pool, false, s.Budget)
			outs = c.runScript(subject)
			viol = c.viol
		}}, &rngChooser{r: rand.New(rand.NewPCG(s.PoolSeed, 5)), strategy: "uniform", meanSeg: 1 + int64(s.PoolSeed%200), targetSw: 100}, &local2)
		if len(sch.TaskSteps()) > 1 && !local2.Aborted {
			if local2.Crash != "" {
				outs = crashOf(&local2)
			} else {
				res.addViol(viol...)
			}
			compare("internal-tasks-rescheduled", outs)
		}
	}
	if len(s.Tasks) > 1 {
		conc := make([][]Outcome, len(s.Tasks))
		ctxs := make([]*Ctx, len(s.Tasks))
		fns := make([]func(), len(s.Tasks))
		for ti := range s.Tasks {
			ti := ti
			ctxs[ti] = newCtx(ti, pool, false, s.Budget)
			fns[ti] = func() { conc[ti] = ctxs[ti].runScript(s.Tasks[ti]) }
		}
		runTasksSim(fns, ch, res)
		if rc, ok := ch.(*rngChooser); ok {
			res.Decisions = rc.decisions
		}
		for _, c := range ctxs {
			res.Stats.merge(c.st)
		}
		if res.Aborted {
			compare("interleaved", nil)
		} else if res.Crash != "" {
			compare("interleaved", crashOf(res))
		} else if !res.Deadlock {
			compare("interleaved", conc[0])
		}
	}
	if poolDigest(pool) != before {
		res.addViol(Violation{Class: "shared-input", Symptom: "input-modified", Detail: "an input was modified"})
	}
	res.Outcomes = [][]Outcome{ref}
	res.Pool = vsimrt.ResetPoolStats()
	res.Digest = outcomesDigest(res.Outcomes, s.Budget)
	if ref == nil {
		res.Digest = 0 // aborted: not comparable
	}
	res.Shape = shapeOf(s)
	return res
}

// ---------------------------------------------------------------------------
// Script generation per property
// ---------------------------------------------------------------------------

func genScript(prop string, seed uint64, run int, big bool) (*Script, *rand.Rand) {
	g := newGen(seed, run, big)
	g.initPool()
	s := &Script{Prop: prop, Seed: seed, Run: run, Budget: 2_000_000}
	s.PoolSeed = g.r.Uint64()
	// 1000: Get never recycles, so tasks never synchronise through a pool and
	// the race detector sees every cross-task conflict; lower values make
	// cross-task recycling (and use-after-Put bugs) common
	s.PoolFresh = []int{0, 100, 250, 500, 1000, 1000, 1000}[g.n(7)]
	switch prop {
	case "C12":
		nObj := g.rng(1, 3)
		nFn := g.n(4)
		s.Tasks = [][]Op{g.taskScript(nObj, nFn, true)}
	case "C17":
		// subject: a single call, or a whole object history
		var subject []Op
		g.focusShare = g.p(0.3)
		if g.p(0.6) {
			subject = g.focusOps(g.fnOp().K, 0)
			if g.p(0.3) {
				subject = append(subject, g.fnOp())
			}
		} else {
			subject = g.history(0, false)
			// now and then the same execute twice in a row on the same object
			var withRepeats []Op
			for _, op := range subject {
				withRepeats = append(withRepeats, op)
				if d := catalogue[op.K]; d != nil && d.exec && g.p(0.35) {
					rep := op
					rep.P = [][]string{{"fresh-sol", "repeat-prev"}, {"repeat-prev"}, {"junk-sol", "repeat-prev"}}[g.n(3)]
					withRepeats = append(withRepeats, rep)
				}
			}
			subject = withRepeats
		}
		s.Tasks = [][]Op{subject}
		for i, n := 0, g.rng(1, 3); i < n; i++ {
			t := g.taskScript(g.n(2), g.rng(1, 3), false)
			if g.p(0.5) {
				// calls of the subject's own kind with other arguments of the same palette
				if d := catalogue[subject[len(subject)-1].K]; d != nil {
					kind := d.name
					if d.obj == "co" {
						kind = "history:co"
					} else if d.obj != "" {
						kind = ""
					}
					if kind != "" {
						t = append(g.focusOps(kind, 10+i), t...)
					}
				}
			}
			s.Tasks = append(s.Tasks, t)
		}
		s.Strategy = []string{"uniform", "adversary", "pct"}[g.n(3)]
	case "C18":
		nT := g.rng(2, 4)
		heavy := g.hugeRef > 0 && g.p(0.3)
		if heavy {
			// several callers at once in the most expensive kind of call on
			// the largest input (limits on concurrent heavy jobs)
			nT = g.rng(4, 6)
		} else if g.p(0.08) {
			// more callers than the race detector's four shadow cells can
			// tell apart: for the outcome oracle (a ring of N shared slots
			// needs N+1 overlapping calls)
			nT = g.rng(5, 9)
		}
		for i := 0; i < nT; i++ {
			if nT > 4 {
				s.Tasks = append(s.Tasks, g.taskScript(g.n(2), g.rng(1, 2), false))
			} else {
				s.Tasks = append(s.Tasks, g.taskScript(g.n(3), g.rng(1, 4), false))
			}
		}
		if g.p(0.5) || nT > 4 {
			// focus: every task also makes a few calls of ONE kind near its
			// start, with parameters from the run's shared palette, so that
			// calls which agree on some arguments and differ in others overlap
			focus := g.focusKind()
			g.focusShare = g.p(0.5)
			if heavy {
				g.focusShare = true
				focus = "InflatePaths64"
				if g.meta[g.hugeRef].isD {
					focus = "InflatePathsD"
				}
			}
			for i := range s.Tasks {
				var pre []Op
				for k, n := 0, g.rng(1, 2); k < n; k++ {
					pre = append(pre, g.focusOps(focus, 10+i)...)
				}
				at := g.n(minInt(3, len(s.Tasks[i])+1))
				s.Tasks[i] = append(append(append([]Op{}, s.Tasks[i][:at]...), pre...), s.Tasks[i][at:]...)
			}
			s.Note = "focus=" + focus
		}
		s.Strategy = []string{"uniform", "adversary", "adversary", "pct"}[g.n(4)]
		s.SoloFirst = g.p(0.6)
	}
	s.Pool = g.pool
	return s, g.r
}

func execScript(s *Script, r *rand.Rand) *RunResult {
	var ch vsimrt.Chooser
	if len(s.Decisions) > 0 || r == nil {
		ch = &replayChooser{dec: s.Decisions}
	} else {
		ch = newRngChooser(r, s.Strategy, len(s.Tasks), 200000)
	}
	vsimrt.Tick()
	var res *RunResult
	switch s.Prop {
	case "C12":
		res = execC12(s)
	case "C17":
		res = execC17(s, ch)
	default:
		res = execC18(s, ch)
	}
	// the verdict is part of the event log that the determinism self-test and
	// the cross-process comparison look at
	for _, v := range res.Violations {
		res.Digest = res.Digest*1099511628211 ^ strHash(v.Class+"/"+v.Symptom+"/"+v.OpKind)
	}
	return res
}

// crashOnly returns a scratch result whose only purpose is to carry the Crash
// field back to r (the solo phase must not add its trace or switch counts).
func crashOnly(r *RunResult) *RunResult {
	if r == nil {
		return nil
	}
	return r
}

// budgetEdge: exactly one of two executions of an operation was cut off by
// the step budget while the other one finished having used more than half of
// it. Step counts may legitimately differ a little between executions (work
// done once per process, for instance), so this is not evidence of anything.
func budgetEdge(a, b *Outcome, budget int64) bool {
	if a.Diverged == b.Diverged {
		return false
	}
	fin := a
	if a.Diverged {
		fin = b
	}
	return fin.Steps > budget/2
}
