package main

import (
	"encoding/json"
	"fmt"
	"os"
	"path"
	"path/filepath"
	"sort"
	"strings"

	"vsimrt"
)

// ---------------------------------------------------------------------------
// known findings
// ---------------------------------------------------------------------------

type Finding struct {
	Property string `json:"property"`
	Key      string `json:"key"` // glob over the finding key
	Status   string `json:"status"` // known | fixed
	Commit   string `json:"commit,omitempty"`
	What     string `json:"what"`
}

type Findings struct {
	Findings []Finding `json:"findings"`
}

func loadFindings(file string) (*Findings, error) {
	var f Findings
	b, err := os.ReadFile(file)
	if err != nil {
		if os.IsNotExist(err) {
			return &f, nil
		}
		return nil, err
	}
	if err := json.Unmarshal(b, &f); err != nil {
		return nil, fmt.Errorf("%s: %v", file, err)
	}
	return &f, nil
}

func (f *Findings) match(prop, key string) *Finding {
	for i := range f.Findings {
		e := &f.Findings[i]
		if e.Property != prop {
			continue
		}
		if ok, _ := path.Match(e.Key, key); ok || e.Key == key {
			return e
		}
	}
	return nil
}

// findingKey identifies a specific failing history / call site:
// property / operation kind / perturbation / symptom.
func findingKey(prop string, v *Violation) string {
	p := v.Pert
	if p == "" {
		p = "-"
	}
	k := v.OpKind
	if k == "" {
		k = "-"
	}
	return strings.Join([]string{prop, v.Class, k, p, v.Symptom}, "/")
}

// ---------------------------------------------------------------------------
// evidence
// ---------------------------------------------------------------------------

type aggregate struct {
	prop, tier    string
	seed          uint64
	runs          int
	crossRuns     int
	nViolRuns     int
	violatingRuns int
	violations    int
	known         []string
	stats         *TaskStats
	switches      [4]int64
	pool          vsimrt.PoolStatsT
	shapes        map[uint64]bool
	scheds        map[uint64]bool
	samples       []*Script
	strategies    map[string]int64
	fired         map[string]int64
	deadlocks     int
	decisions     int64
	wallS         float64
	searchS       float64
	workerWall    float64
	raceBuild     bool
	selfcheck     string
}

func newAggregate(prop, tier string, seed uint64) *aggregate {
	return &aggregate{prop: prop, tier: tier, seed: seed, stats: newStats(), shapes: map[uint64]bool{}, scheds: map[uint64]bool{}, strategies: map[string]int64{}, fired: map[string]int64{}}
}

func (a *aggregate) add(w *WorkerOut) {
	a.runs += w.Runs
	a.nViolRuns += w.NViolRuns
	a.stats.merge(w.Stats)
	for i := range a.switches {
		a.switches[i] += w.Switches[i]
	}
	a.pool.Gets += w.Pool.Gets
	a.pool.Puts += w.Pool.Puts
	a.pool.Fresh += w.Pool.Fresh
	a.pool.Recycled += w.Pool.Recycled
	a.pool.CrossTask += w.Pool.CrossTask
	for _, s := range w.Shapes {
		a.shapes[s] = true
	}
	for i, s := range w.SchedHash {
		if s != 0 {
			a.scheds[s^w.Shapes[i]] = true
		}
	}
	if len(a.samples) < 3 {
		a.samples = append(a.samples, w.Samples...)
	}
	for k, v := range w.Strategies {
		a.strategies[k] += v
	}
	a.deadlocks += w.Deadlocks
	a.decisions += w.Decisions
	a.workerWall += w.WallS
	a.raceBuild = w.RaceBuild
}

func readJSON(file string, v any) bool {
	b, err := os.ReadFile(file)
	if err != nil {
		return false
	}
	return json.Unmarshal(b, v) == nil
}

func (a *aggregate) write(file, meta string) error {
	fired := map[string]int64{}
	for k, v := range a.stats.Fired {
		fired[k] = v
	}
	for k, v := range a.fired {
		fired[k] += v
	}
	fired["preempt"] = a.switches[0]
	fired["preempt-shared"] = a.switches[1]
	fired["preempt-in-dependency"] = a.switches[2]
	fired["preempt-in-callback"] = a.switches[3]
	fired["pool-recycle"] = a.pool.Recycled
	fired["pool-recycle-cross-task"] = a.pool.CrossTask
	notApplicable := map[string]any{}
	for _, k := range []string{"message-loss", "message-duplication", "message-reordering", "partition", "crash-restart", "clock-skew", "disk-error", "torn-write", "allocation-failure"} {
		notApplicable[k] = 0
	}

	// coverage of the exported API
	var api []struct {
		Name string `json:"name"`
		Recv string `json:"recv"`
	}
	covered := map[string]bool{}
	for _, name := range catalogueOrder {
		if a.stats.OpsByKind[name] > 0 {
			for _, x := range catalogue[name].apis {
				covered[x] = true
			}
		}
	}
	var apiFound, apiCovered int
	var uncovered []string
	if meta != "" && readJSON(filepath.Join(meta, "lib.api.json"), &api) {
		for _, f := range api {
			n := f.Name
			if f.Recv != "" {
				n = f.Recv + "." + f.Name
			}
			apiFound++
			if covered[n] {
				apiCovered++
			} else {
				uncovered = append(uncovered, n)
			}
		}
	}
	var sitesLib, sitesDep struct {
		Next     uint32   `json:"next"`
		Go       int      `json:"go_statements"`
		Chan     int      `json:"channel_ops"`
		Swapped  int      `json:"sync_swapped"`
		PkgVars  []string `json:"package_vars"`
		NumSites int      `json:"-"`
	}
	if meta != "" {
		readJSON(filepath.Join(meta, "lib.sites.json"), &sitesLib)
		readJSON(filepath.Join(meta, "dep.sites.json"), &sitesDep)
	}

	var distinct int
	var rule string
	switch a.prop {
	case "C12":
		distinct = len(a.shapes)
		rule = "A case is one seeded history (a script of Add*/Execute*/SetField/... calls on 1-3 objects of one client, interleaved with package-level calls, salted with the C12 perturbations) run against the instrumented real library, every execute compared with a fresh-object reference. distinct_nontrivial counts distinct history SHAPES: hash of the sequence (operation kind, perturbation flags); every history contains at least one judged execute."
	case "C17":
		distinct = len(a.stats.Judged)
		rule = "A case is one seeded subject (a single call or a whole object history) executed 8-9 times in one process (reference, immediate, after GC, after heap churn, on a new goroutine with a different stack depth, with another pool-recycling stream, after the other tasks' calls, with its own internal tasks rescheduled if it has any, interleaved with 1-3 other tasks by the seeded scheduler), plus a subset re-run in fresh processes under three other GOMAXPROCS/GOGC settings. distinct_nontrivial counts distinct (repeat variant, operation kind) pairs whose outcomes were actually compared bit by bit."
	default:
		distinct = len(a.scheds)
		rule = "A case is one seeded run: 2-4 tasks, each a script of package-level calls and histories on task-owned objects over shared read-only inputs, executed solo and then interleaved by the seeded cooperative scheduler in a -race build with happens-before-transparent handoffs. distinct_nontrivial counts distinct hashes of the context-switch sequence (task, stop site) combined with the script shape, for runs with at least one switch inside library code."
	}
	var samples []any
	for _, s := range a.samples {
		samples = append(samples, s)
	}
	if len(samples) == 0 {
		samples = append(samples, "no sample kept (no run index divisible by 7 in this batch)")
	}
	fkeys := func(m map[string]int64) map[string]int64 {
		out := map[string]int64{}
		for _, k := range sortedKeysI(m) {
			out[k] = m[k]
		}
		return out
	}
	judged := a.stats.Judged
	if a.prop == "C17" {
		// collapse the per-operation counters for readability
		byVariant := map[string]int64{}
		for k, v := range judged {
			parts := strings.Split(k, "/")
			if len(parts) >= 2 {
				byVariant[parts[0]+"/"+parts[1]] += v
			}
		}
		judged = byVariant
	}
	var zero []string
	expect := map[string][]string{
		"C12": {"exec-other", "exec-tree", "exec-noclip", "add-split", "add-reorder", "add-after-exec", "dirty-solution", "solution-alias", "scribble-input", "scribble-output", "field-change", "callback-toggle", "reentrant-call"},
		"C17": {"immediate", "gc", "heap-churn", "new-goroutine", "other-pool-stream", "reused-buffers", "after-other-calls", "interleaved", "preempt", "preempt-shared"},
		"C18": {"preempt", "preempt-shared", "preempt-in-dependency", "preempt-in-callback", "pool-recycle-cross-task", "reentrant-call", "callback-entered"},
	}
	for _, k := range expect[a.prop] {
		if fired[k] == 0 {
			zero = append(zero, k)
		}
	}
	sort.Strings(zero)
	for _, k := range zero {
		fmt.Printf("vsim: WARNING: perturbation kind %q never fired in this batch\n", k)
	}
	cov := map[string]any{
		"evaluations":         a.runs,
		"distinct_nontrivial": distinct,
		"rule":                rule,
		"samples":             samples,
		"runs_per_hour":       int64(float64(a.runs) / maxF(a.searchS, 0.001) * 3600),
		"search_wall_s":       a.searchS,
		"worker_cpu_s":        a.workerWall,
		"simulated_time":      map[string]any{"unit": "yield sites passed inside library+dependency code (the system has no clock)", "steps": a.stats.Steps},
		"operations":          a.stats.Ops,
		"operations_by_kind":  fkeys(a.stats.OpsByKind),
		"context_switches":    map[string]int64{"total": a.switches[0], "at_shared_sites": a.switches[1], "inside_dependency": a.switches[2], "inside_callbacks": a.switches[3]},
		"scheduling_decisions": a.decisions,
		"strategies":          a.strategies,
		"faults_fired":        fkeys(fired),
		"faults_never_fired":  zero,
		"faults_not_applicable": map[string]any{"reason": "the library is a single-process computational package without network, storage, clock or allocation-failure paths; these kinds have nothing to act on", "kinds": notApplicable},
		"probes":              fkeys(a.stats.Probes),
		"judged":              fkeys(judged),
		"pool":                a.pool,
		"op_outcomes":         map[string]int64{"diverged_step_budget": a.stats.Diverged, "panicked": a.stats.Panics, "reference_diverged_unjudged": a.stats.RefDiverge},
		"deadlocks":           a.deadlocks,
		"violating_runs":      a.nViolRuns,
		"known_findings_matched": a.known,
		"cross_process_runs":  a.crossRuns,
		"determinism_selfcheck": a.selfcheck,
		"exported_api":        map[string]any{"found": apiFound, "covered_by_catalogue_and_run": apiCovered, "not_covered": uncovered},
		"instrumentation": map[string]any{
			"library_sites": int(sitesLib.Next) - 1, "dependency_sites": int(sitesDep.Next) - vsimrt.SiteDepBase,
			"go_statements_rewritten": sitesLib.Go + sitesDep.Go, "channel_operations_seen": sitesLib.Chan + sitesDep.Chan, "sync_types_swapped": sitesLib.Swapped + sitesDep.Swapped,
			"library_package_vars": sitesLib.PkgVars,
		},
		"components": map[string]string{
			"go-clipper2 (all non-test sources of /repo's working tree)": "real code, copied and instrumented with yield calls only",
			"github.com/govalues/decimal v0.1.36":                        "real code, copied and instrumented with yield calls; sync.Pool swapped for vsimrt.Pool",
			"Go scheduler":                                               "stand-in: seeded cooperative scheduler (one runnable task at a time)",
			"sync.Pool":                                                  "stand-in: vsimrt.Pool (seeded choice of fresh vs recycled object, same race annotations)",
			"race detector":                                              fmt.Sprintf("real (ThreadSanitizer), build has it: %v", a.raceBuild),
		},
	}
	ev := map[string]any{
		"property_id": a.prop,
		"tier":        a.tier,
		"seed":        int64(a.seed),
		"level":       "exploration",
		"coverage":    cov,
		"assumptions": []string{
			"a clean batch is evidence, not proof: histories and schedules are sampled by a seeded PRNG, not enumerated",
			"the instrumented scratch copy behaves like /repo's code: the rewriter only adds calls to vsimrt.Y/YS and swaps sync type names",
			"blocking the rewriter cannot see (select without default stops the instrumenter; named channel types in range loops block for real) ends in exit 2, not in a verdict",
			"the race oracle inherits ThreadSanitizer's limits (4 shadow cells per word; task count is <= 4 in nine runs of ten); real synchronisation inside the code under test (pools, including those of math/big) can legitimately order accesses and hide a race in that execution",
		},
		"wall_s":     a.wallS,
		"violations": a.violations,
	}
	b, err := json.MarshalIndent(ev, "", " ")
	if err != nil {
		return err
	}
	os.MkdirAll(filepath.Dir(file), 0o755)
	return os.WriteFile(file, b, 0o644)
}

func maxF(a, b float64) float64 {
	if a > b {
		return a
	}
	return b
}
