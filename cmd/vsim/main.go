// vsim is the deterministic-simulation harness for go-clipper2 (see
// /verif/DESIGN.md). It is linked against an *instrumented scratch copy* of
// the library, built by /verif/check.sh from /repo's current working tree.
package main

import (
	"encoding/json"
	"flag"
	"fmt"
	"os"
	"runtime"
	"runtime/debug"
	"strings"
	"time"

	"vsimrt"
)

func usage() {
	fmt.Fprintln(os.Stderr, `usage:
  vsim run     -prop C12|C17|C18 -tier quick|thorough -seed N -evidence FILE -replays DIR -findings FILE -meta DIR
  vsim worker  -prop P -seed N -from A -to B -tier T -out FILE
  vsim exec    -in SCRIPT.json -out RESULT.json
  vsim replay  -file REPLAY.json
  vsim selftest -prop P -seed N -runs K`)
	os.Exit(2)
}

func main() {
	if len(os.Args) < 2 {
		usage()
	}
	// GC settings do not influence any decision; they are an environment
	// dimension the C17 cross-process comparison varies on purpose.
	switch os.Args[1] {
	case "run":
		os.Exit(cmdRun(os.Args[2:]))
	case "worker":
		os.Exit(cmdWorker(os.Args[2:]))
	case "exec":
		os.Exit(cmdExec(os.Args[2:]))
	case "replay":
		os.Exit(cmdReplay(os.Args[2:]))
	case "selftest":
		os.Exit(cmdSelftest(os.Args[2:]))
	case "minimise":
		os.Exit(cmdMinimise(os.Args[2:]))
	case "gen":
		os.Exit(cmdGen(os.Args[2:]))
	default:
		usage()
	}
}

// ---------------------------------------------------------------------------
// worker: a batch of runs in one process
// ---------------------------------------------------------------------------

// CrossReplay names two worker configurations over the same runs whose
// per-run outcome digests differ at Run.
type CrossReplay struct {
	Seed     uint64 `json:"seed"`
	From     int    `json:"from"`
	To       int    `json:"to"`
	Run      int    `json:"run"`
	Tier     string `json:"tier"`
	EnvB     string `json:"env_b"`
	ReverseB bool   `json:"reverse_order_b"`
}

type FoundViolation struct {
	Cross      *CrossReplay `json:"cross,omitempty"`
	Script     *Script     `json:"script"`
	Violations []Violation `json:"violations"`
	RaceLog    string      `json:"race_log,omitempty"`
}

type WorkerOut struct {
	Prop       string            `json:"prop"`
	Seed       uint64            `json:"seed"`
	From       int               `json:"from"`
	To         int               `json:"to"`
	Runs       int               `json:"runs"`
	WallS      float64           `json:"wall_s"`
	Stats      *TaskStats        `json:"stats"`
	Switches   [4]int64          `json:"switches"`
	Pool       vsimrt.PoolStatsT `json:"pool"`
	Found      []FoundViolation  `json:"found,omitempty"`
	NViolRuns  int               `json:"violating_runs"`
	Digests    []uint64          `json:"digests,omitempty"`
	Shapes     []uint64          `json:"shapes,omitempty"`
	SchedHash  []uint64          `json:"sched_hashes,omitempty"`
	Samples    []*Script         `json:"samples,omitempty"`
	Strategies map[string]int64  `json:"strategies,omitempty"`
	RaceBuild  bool              `json:"race_build"`
	Env        string            `json:"env"`
	Deadlocks  int               `json:"deadlocks"`
	Decisions  int64             `json:"decisions"`
	DroppedFound int             `json:"dropped_found"`
	StoppedEarly bool            `json:"stopped_early"`
	NextRun      int             `json:"next_run"`
	LibSteps   int64             `json:"lib_steps"`
}

func raceLogPath() string {
	for _, kv := range strings.Fields(os.Getenv("GORACE")) {
		if strings.HasPrefix(kv, "log_path=") {
			return strings.TrimPrefix(kv, "log_path=") + fmt.Sprintf(".%d", os.Getpid())
		}
	}
	return ""
}

func readFrom(path string, off int64) (string, int64) {
	if path == "" {
		return "", off
	}
	b, err := os.ReadFile(path)
	if err != nil || int64(len(b)) <= off {
		return "", off
	}
	return string(b[off:]), int64(len(b))
}

func cmdWorker(args []string) int {
	fs := flag.NewFlagSet("worker", flag.ExitOnError)
	prop := fs.String("prop", "", "")
	seed := fs.Uint64("seed", 1, "")
	from := fs.Int("from", 0, "")
	to := fs.Int("to", 1, "")
	tier := fs.String("tier", "quick", "")
	out := fs.String("out", "", "")
	keep := fs.Int("keep", 2, "violating scripts to keep PER DISTINCT violation key (class/operation/perturbation/symptom)")
	cold := fs.Int("cold", -1, "run index executed concurrent-phase first (default: -from)")
	reverse := fs.Bool("reverse", false, "execute the runs in descending order (results are still indexed by run)")
	fs.Parse(args)
	debug.SetMaxStack(256 << 20)
	w := &WorkerOut{Prop: *prop, Seed: *seed, From: *from, To: *to, Stats: newStats(), Strategies: map[string]int64{}, RaceBuild: vsimrt.RaceBuild,
		Env: fmt.Sprintf("GOMAXPROCS=%d GOGC=%s", runtime.GOMAXPROCS(0), os.Getenv("GOGC"))}
	start := time.Now()
	logPath := raceLogPath()
	var logOff int64
	keptPerKey := map[string]int{}
	big := *tier == "thorough"
	n := *to - *from
	w.Digests = make([]uint64, n)
	w.Shapes = make([]uint64, n)
	w.SchedHash = make([]uint64, n)
	for k := 0; k < n; k++ {
		run := *from + k
		if *reverse {
			run = *to - 1 - k
		}
		s, r := genScript(*prop, *seed, run, big)
		coldRun := *from
		if *cold >= 0 {
			coldRun = *cold
		}
		if run == coldRun && *prop == "C18" {
			s.SoloFirst = false // the first run of a process meets process-lifetime state cold
		}
		res := execScript(s, r)
		w.Runs++
		w.Stats.merge(res.Stats)
		for i := range w.Switches {
			w.Switches[i] += res.Switches[i]
		}
		w.Pool.Gets += res.Pool.Gets
		w.Pool.Puts += res.Pool.Puts
		w.Pool.Fresh += res.Pool.Fresh
		w.Pool.Recycled += res.Pool.Recycled
		w.Pool.CrossTask += res.Pool.CrossTask
		w.Digests[run-*from] = res.Digest
		w.Shapes[run-*from] = res.Shape
		w.SchedHash[run-*from] = res.SchedHash
		w.Decisions += int64(len(res.Decisions))
		if s.Strategy != "" {
			w.Strategies[s.Strategy]++
		}
		if res.Deadlock {
			w.Deadlocks++
		}
		if len(w.Samples) < 2 && run%7 == 0 {
			cp := s.clone()
			cp.Decisions = res.Decisions
			if len(cp.Decisions) > 40 {
				cp.Decisions = cp.Decisions[:40]
				cp.Note = "decisions truncated to 40 in this sample"
			}
			w.Samples = append(w.Samples, cp)
		}
		if len(res.Violations) > 0 {
			w.NViolRuns++
			var rl string
			rl, logOff = readFrom(logPath, logOff)
			// keep the run if it shows a violation key of which fewer than
			// -keep runs were kept so far: a frequent (perhaps known) finding
			// must not crowd out a rare one
			wanted := false
			for i := range res.Violations {
				k := findingKey(*prop, &res.Violations[i])
				if keptPerKey[k] < *keep {
					keptPerKey[k]++
					wanted = true
				}
			}
			if wanted && len(w.Found) < 400 {
				cp := s.clone()
				cp.Decisions = res.Decisions
				w.Found = append(w.Found, FoundViolation{Script: cp, Violations: res.Violations, RaceLog: clipStr(rl)})
			} else if wanted {
				w.DroppedFound++
			}
		}
		if res.Killed {
			// tasks were torn down in this run: package-level state of the
			// code under test may be left half-way (a worker goroutine gone,
			// a lock held). The process is not used for further runs; the
			// coordinator starts a fresh one for the rest of the batch.
			w.StoppedEarly = true
			if *reverse {
				w.NextRun = run - 1
			} else {
				w.NextRun = run + 1
			}
			break
		}
	}
	w.WallS = time.Since(start).Seconds()
	w.LibSteps = w.Stats.Steps
	b, _ := json.Marshal(w)
	if *out == "" {
		os.Stdout.Write(b)
	} else if err := os.WriteFile(*out, b, 0o644); err != nil {
		fmt.Fprintln(os.Stderr, err)
		return 2
	}
	return 0
}

// ---------------------------------------------------------------------------
// exec: one literal script in this (fresh) process
// ---------------------------------------------------------------------------

type ExecOut struct {
	Violations []Violation `json:"violations"`
	Digest     uint64      `json:"digest"`
	RaceLog    string      `json:"race_log,omitempty"`
	Outcomes   [][]string  `json:"outcomes,omitempty"`
}

func cmdExec(args []string) int {
	fs := flag.NewFlagSet("exec", flag.ExitOnError)
	in := fs.String("in", "", "")
	out := fs.String("out", "", "")
	full := fs.Bool("outcomes", false, "include the outcome encodings")
	fs.Parse(args)
	debug.SetMaxStack(256 << 20)
	b, err := os.ReadFile(*in)
	if err != nil {
		fmt.Fprintln(os.Stderr, err)
		return 2
	}
	var s Script
	if err := json.Unmarshal(b, &s); err != nil {
		fmt.Fprintln(os.Stderr, err)
		return 2
	}
	res := execScript(&s, nil)
	eo := ExecOut{Violations: res.Violations, Digest: res.Digest}
	eo.RaceLog, _ = readFrom(raceLogPath(), 0)
	eo.RaceLog = clipStr(eo.RaceLog)
	if *full {
		for _, t := range res.Outcomes {
			var l []string
			for i := range t {
				l = append(l, t[i].key())
			}
			eo.Outcomes = append(eo.Outcomes, l)
		}
	}
	ob, _ := json.Marshal(eo)
	if *out == "" {
		os.Stdout.Write(ob)
		fmt.Println()
	} else if err := os.WriteFile(*out, ob, 0o644); err != nil {
		fmt.Fprintln(os.Stderr, err)
		return 2
	}
	return 0
}

// gen prints the script of one run (debugging aid).
func cmdGen(args []string) int {
	fs := flag.NewFlagSet("gen", flag.ExitOnError)
	prop := fs.String("prop", "C12", "")
	seed := fs.Uint64("seed", 1, "")
	run := fs.Int("run", 0, "")
	fs.Parse(args)
	s, _ := genScript(*prop, *seed, *run, false)
	b, _ := json.MarshalIndent(s, "", " ")
	os.Stdout.Write(b)
	fmt.Println()
	return 0
}

func strHash(s string) uint64 {
	h := uint64(14695981039346656037)
	for i := 0; i < len(s); i++ {
		h = (h ^ uint64(s[i])) * 1099511628211
	}
	return h
}
