package main

import (
	"math"
	"math/rand/v2"
	"sort"

	clip "github.com/bolom009/go-clipper2"
)

// Gen draws everything a run needs from one PRNG.
type Gen struct {
	hugeRef    int // pool entry above 4096 vertices, or 0 if none
	focusBase  map[string]*Op
	focusShare bool
	distinctY  bool           // generic position: no two vertices of the run's inputs share a Y
	usedY      map[int64]bool
	r    *rand.Rand
	big  bool // thorough tier: larger inputs in the mix
	pool []PoolEntry
	meta []entryMeta
	pal  palette
}

type entryMeta struct {
	isD   bool
	small bool // first path has <= 8 vertices (usable as Minkowski pattern)
	open  bool // generated as open polylines
	scale float64
}

type palette struct {
	S      float64 // coordinate magnitude of this run
	deltas []float64
	eps    []float64
	precs  []int64
	rects  [][4]int64
	ddiv   float64 // D inputs = integer inputs / ddiv
	steps  []int64 // step counts of explicit ellipses
}

func newGen(seed uint64, run int, big bool) *Gen {
	g := &Gen{r: rand.New(rand.NewPCG(seed, uint64(run)*0x9E3779B97F4A7C15+0xC0FFEE)), big: big}
	return g
}

func (g *Gen) n(k int) int { // 0..k-1
	if k <= 0 {
		return 0
	}
	return g.r.IntN(k)
}
func (g *Gen) rng(lo, hi int) int { return lo + g.n(hi-lo+1) }
func (g *Gen) p(prob float64) bool { return g.r.Float64() < prob }
func (g *Gen) f(lo, hi float64) float64 { return lo + g.r.Float64()*(hi-lo) }
func (g *Gen) pickF(v []float64) float64 { return v[g.n(len(v))] }
func (g *Gen) pickI(v []int64) int64 { return v[g.n(len(v))] }

func (g *Gen) initPalette() {
	scales := []float64{50, 50, 1e4, 1e4, 5e8}
	S := scales[g.n(len(scales))]
	g.pal.S = S
	g.pal.deltas = []float64{0.3, -0.3, 1, -1, 2.5, 10, -4, S / 10, -S / 25, S / 50}
	g.pal.eps = []float64{0, 0.5, 1, 2, S / 100, S / 10}
	allPrec := []int64{-2, -1, 0, 1, 2, 2, 2, 3, 4}
	g.pal.precs = []int64{allPrec[g.n(len(allPrec))], allPrec[g.n(len(allPrec))], 2}
	s := int64(S)
	for i := 0; i < 3; i++ {
		l, t := -s+int64(g.n(int(s)+1)), -s+int64(g.n(int(s)+1))
		w, h := 1+int64(g.n(int(s)+1)), 1+int64(g.n(int(s)+1))
		g.pal.rects = append(g.pal.rects, [4]int64{l, t, l + w, t + h})
	}
	g.pal.rects = append(g.pal.rects, [4]int64{-s / 2, -s / 2, s / 2, s / 2}, [4]int64{0, 0, 0, 0}, [4]int64{-2 * s, -2 * s, 2 * s, 2 * s})
	g.pal.ddiv = []float64{1, 10, 100, 1000}[g.n(4)]
	g.pal.steps = []int64{int64(g.n(40)), int64(3 + g.n(200)), 0}
}

// ---------------------------------------------------------------------------
// path families (integer coordinates, magnitude S)
// ---------------------------------------------------------------------------

func (g *Gen) centre() (float64, float64) {
	S := g.pal.S
	return g.f(-S/2, S/2), g.f(-S/2, S/2)
}

func rnd(v float64) int64 { return int64(math.Round(v)) }

func (g *Gen) maybeReverse(p clip.Path64) clip.Path64 {
	if g.p(0.3) {
		for i, j := 0, len(p)-1; i < j; i, j = i+1, j-1 {
			p[i], p[j] = p[j], p[i]
		}
	}
	return p
}

func (g *Gen) famRect() clip.Path64 {
	S := g.pal.S
	cx, cy := g.centre()
	w, h := g.f(1, S/2), g.f(1, S/2)
	return g.maybeReverse(clip.Path64{{X: rnd(cx - w), Y: rnd(cy - h)}, {X: rnd(cx + w), Y: rnd(cy - h)}, {X: rnd(cx + w), Y: rnd(cy + h)}, {X: rnd(cx - w), Y: rnd(cy + h)}})
}

func (g *Gen) famRadial(n int, kind int) clip.Path64 {
	S := g.pal.S
	cx, cy := g.centre()
	r1 := g.f(S/20+1, S/2)
	r2 := r1 * g.f(0.2, 0.9)
	rx, ry := g.f(0.5, 1), g.f(0.5, 1)
	p := make(clip.Path64, 0, n)
	angs := make([]float64, n)
	for i := range angs {
		switch kind {
		case 2: // random simple polygon: sorted random angles
			angs[i] = g.f(0, 2*math.Pi)
		default:
			angs[i] = 2 * math.Pi * float64(i) / float64(n)
		}
	}
	sort.Float64s(angs)
	for i, a := range angs {
		r := r1
		switch kind {
		case 1: // star
			if i%2 == 1 {
				r = r2
			}
		case 2:
			r = g.f(r2, r1)
		}
		p = append(p, clip.Point64{X: rnd(cx + r*rx*math.Cos(a)), Y: rnd(cy + r*ry*math.Sin(a))})
	}
	return g.maybeReverse(p)
}

func (g *Gen) famGrid(n int) clip.Path64 {
	S := g.pal.S
	cells := g.rng(3, 8)
	step := math.Max(1, math.Floor(S/float64(cells)))
	p := make(clip.Path64, 0, n)
	for i := 0; i < n; i++ {
		p = append(p, clip.Point64{X: rnd(float64(g.rng(-cells, cells)) * step), Y: rnd(float64(g.rng(-cells, cells)) * step)})
	}
	return p
}

func (g *Gen) famComb(teeth int) clip.Path64 {
	S := g.pal.S
	w := math.Max(2, math.Floor(2*S/float64(2*teeth+1)))
	x0 := -S
	yb := g.f(-S/2, 0)
	h := g.f(S/10+2, S/2)
	down := g.p(0.5)
	p := clip.Path64{}
	for i := 0; i <= 2*teeth; i++ {
		y := yb
		if i%2 == 1 {
			y = yb + h
		}
		if g.p(0.2) {
			y += g.f(0, h/3)
		}
		p = append(p, clip.Point64{X: rnd(x0 + float64(i)*w), Y: rnd(y)})
	}
	yy := yb - h
	if !down {
		yy = yb + 2*h
	}
	p = append(p, clip.Point64{X: rnd(x0 + float64(2*teeth)*w), Y: rnd(yy)}, clip.Point64{X: rnd(x0), Y: rnd(yy)})
	return g.maybeReverse(p)
}

func (g *Gen) famOpen(n int) clip.Path64 {
	S := g.pal.S
	x, y := g.centre()
	p := clip.Path64{{X: rnd(x), Y: rnd(y)}}
	for i := 1; i < n; i++ {
		switch g.n(4) {
		case 0:
			x += g.f(-S/3, S/3) // horizontal run
		case 1:
			y += g.f(-S/3, S/3)
		default:
			x += g.f(-S/3, S/3)
			y += g.f(-S/3, S/3)
		}
		p = append(p, clip.Point64{X: rnd(x), Y: rnd(y)})
	}
	return p
}

// famRectilinear: a rectangle or an L/U-shaped rectilinear polygon with its
// corners on a coarse grid; many of them overlap, touch and nest (splits,
// horizontal joins, several nesting levels in poly-tree output).
func (g *Gen) famRectilinear() clip.Path64 {
	S := g.pal.S
	cells := g.rng(5, 10)
	step := math.Max(1, math.Floor(2*S/float64(cells)))
	at := func(i int) int64 { return rnd(-S + float64(i)*step) }
	x0, y0 := g.rng(0, cells-2), g.rng(0, cells-2)
	x1, y1 := g.rng(x0+1, cells), g.rng(y0+1, cells)
	if g.p(0.6) || x1-x0 < 2 || y1-y0 < 2 {
		return g.maybeReverse(clip.Path64{{X: at(x0), Y: at(y0)}, {X: at(x1), Y: at(y0)}, {X: at(x1), Y: at(y1)}, {X: at(x0), Y: at(y1)}})
	}
	// L shape: cut a corner rectangle out
	xm, ym := g.rng(x0+1, x1-1), g.rng(y0+1, y1-1)
	return g.maybeReverse(clip.Path64{{X: at(x0), Y: at(y0)}, {X: at(x1), Y: at(y0)}, {X: at(x1), Y: at(ym)}, {X: at(xm), Y: at(ym)}, {X: at(xm), Y: at(y1)}, {X: at(x0), Y: at(y1)}})
}

func (g *Gen) degenerate(p clip.Path64) clip.Path64 {
	if len(p) == 0 {
		return p
	}
	switch g.n(5) {
	case 0: // repeat a vertex
		i := g.n(len(p))
		p = append(p[:i+1], p[i:]...)
	case 1: // repeat closing vertex
		p = append(p, p[0])
	case 2: // insert a collinear midpoint
		i := g.n(len(p))
		j := (i + 1) % len(p)
		m := clip.Point64{X: (p[i].X + p[j].X) / 2, Y: (p[i].Y + p[j].Y) / 2}
		p = append(p[:i+1], append(clip.Path64{m}, p[i+1:]...)...)
	case 3: // spike
		i := g.n(len(p))
		q := clip.Point64{X: p[i].X + int64(g.rng(-5, 5)), Y: p[i].Y + int64(g.rng(-5, 5))}
		p = append(p[:i+1], append(clip.Path64{q, p[i]}, p[i+1:]...)...)
	}
	return p
}

// pathSet64 returns a path set of a random family.
func (g *Gen) pathSet64(open bool, small bool) clip.Paths64 {
	maxV := 40
	maxP := 6
	if g.big && g.p(0.3) {
		maxV, maxP = 300, 12
	}
	if small {
		maxV, maxP = 8, 1
	}
	nP := g.rng(1, maxP)
	if g.p(0.05) && !small {
		nP = 0
	}
	var out clip.Paths64
	if !open && !small && g.p(0.12) {
		// a dense arrangement of rectilinear polygons
		for i, n := 0, g.rng(5, 12); i < n; i++ {
			out = append(out, g.famRectilinear())
		}
		g.spreadY(out)
		return out
	}
	fam := g.n(9)
	for i := 0; i < nP; i++ {
		if g.p(0.35) {
			fam = g.n(9)
		}
		nV := g.rng(3, maxV)
		var p clip.Path64
		if open {
			nO := g.rng(2, minInt(maxV, 12))
			if g.p(0.2) {
				nO = 2 // a single segment
			}
			p = g.famOpen(nO)
		} else {
			switch fam {
			case 0:
				p = g.famRect()
			case 1:
				p = g.famRadial(nV, 0)
			case 2, 3:
				p = g.famRadial(nV&^1|4, 1)
			case 4:
				p = g.famRadial(nV, 2)
			case 5:
				p = g.famGrid(minInt(nV, 14))
			case 6:
				p = g.famComb(g.rng(2, maxV/2))
			case 7: // ring: outer and a hole
				p = g.famRadial(nV, 0)
				if len(out) < maxP-1 && len(p) > 0 {
					hole := make(clip.Path64, len(p))
					var b clip.Point64
					for _, pt := range p {
						b.X += pt.X / int64(len(p))
						b.Y += pt.Y / int64(len(p))
					}
					for k, pt := range p {
						hole[len(p)-1-k] = clip.Point64{X: b.X + (pt.X-b.X)/2, Y: b.Y + (pt.Y-b.Y)/2}
					}
					out = append(out, hole)
				}
			default: // touching squares
				S := g.pal.S
				s := math.Max(2, math.Floor(S/6))
				i0, j0 := float64(g.rng(-3, 2)), float64(g.rng(-3, 2))
				p = clip.Path64{{X: rnd(i0 * s), Y: rnd(j0 * s)}, {X: rnd((i0 + 1) * s), Y: rnd(j0 * s)}, {X: rnd((i0 + 1) * s), Y: rnd((j0 + 1) * s)}, {X: rnd(i0 * s), Y: rnd((j0 + 1) * s)}}
				p = g.maybeReverse(p)
			}
		}
		if g.p(0.12) {
			p = g.degenerate(p)
		}
		if g.p(0.03) {
			p = p[:g.n(minInt(3, len(p)+1))] // too short
		}
		out = append(out, p)
	}
	if out == nil {
		out = clip.Paths64{}
	}
	g.spreadY(out)
	return out
}

// spreadY moves vertices up by a few units until every Y of the run is used
// once (only in runs drawn as "generic position").
func (g *Gen) spreadY(ps clip.Paths64) {
	if !g.distinctY {
		return
	}
	if g.usedY == nil {
		g.usedY = map[int64]bool{}
	}
	step := int64(1)
	if g.pal.ddiv > 1 {
		step = 1 // D inputs are divided by ddiv later; ties may come back through rounding, the oracle checks
	}
	for _, p := range ps {
		for i := range p {
			for g.usedY[p[i].Y] {
				p[i].Y += step
			}
			g.usedY[p[i].Y] = true
		}
	}
}

// manySet: a set of 64..400 small polygons (size thresholds of batch code
// paths are only crossed by inputs like this one).
func (g *Gen) manySet() clip.Paths64 {
	S := g.pal.S
	n := g.rng(64, 400)
	if g.p(0.5) {
		n = g.rng(64, 160)
	} else if g.p(0.2) {
		n = g.rng(512, 640) // above the largest batch threshold seen so far in a seeded change (512 paths)
	}
	cols := int(math.Ceil(math.Sqrt(float64(n))))
	cell := math.Max(4, math.Floor(2*S/float64(cols+1)))
	out := make(clip.Paths64, 0, n)
	overlap := g.f(0.3, 0.7)
	if g.p(0.3) && n < 512 {
		overlap = g.f(0.9, 1.3) // touching / overlapping neighbours
	}
	for i := 0; i < n; i++ {
		cx := -S + cell*float64(i%cols+1)
		cy := -S + cell*float64(i/cols+1)
		h := cell * overlap / 2
		var p clip.Path64
		switch g.n(3) {
		case 0:
			p = clip.Path64{{X: rnd(cx - h), Y: rnd(cy - h)}, {X: rnd(cx + h), Y: rnd(cy - h)}, {X: rnd(cx + h), Y: rnd(cy + h)}, {X: rnd(cx - h), Y: rnd(cy + h)}}
		case 1:
			p = clip.Path64{{X: rnd(cx - h), Y: rnd(cy - h)}, {X: rnd(cx + h), Y: rnd(cy)}, {X: rnd(cx), Y: rnd(cy + h)}}
		default:
			p = clip.Path64{{X: rnd(cx), Y: rnd(cy - h)}, {X: rnd(cx + h), Y: rnd(cy)}, {X: rnd(cx), Y: rnd(cy + h)}, {X: rnd(cx - h), Y: rnd(cy)}}
		}
		out = append(out, g.maybeReverse(p))
	}
	if g.p(0.5) {
		// ties between paths: a few paths occur twice (as they are or
		// reversed) at far-apart positions of the set, among them - half of the
		// time - the path that holds the lowest-leftmost vertex of the set
		dup := func(i int) {
			j := (i + n/2 + g.n(n/4+1)) % n
			q := append(clip.Path64{}, out[i]...)
			if g.p(0.7) {
				for a, b := 0, len(q)-1; a < b; a, b = a+1, b-1 {
					q[a], q[b] = q[b], q[a]
				}
			}
			out[j] = q
		}
		for k, m := 0, g.rng(1, 4); k < m; k++ {
			dup(g.n(n))
		}
		if g.p(0.5) {
			best := -1
			var bp clip.Point64
			for i, p := range out {
				for _, pt := range p {
					if best < 0 || pt.Y > bp.Y || (pt.Y == bp.Y && pt.X < bp.X) {
						best, bp = i, pt
					}
				}
			}
			if best >= 0 {
				dup(best)
			}
		}
	}
	return out
}

// longSet: one or two paths with 64..400 vertices.
func (g *Gen) longSet() clip.Paths64 {
	var out clip.Paths64
	for i, n := 0, g.rng(1, 2); i < n; i++ {
		nv := g.rng(64, 400)
		switch g.n(3) {
		case 0:
			out = append(out, g.famRadial(nv&^1, 1))
		case 1:
			out = append(out, g.famRadial(nv, 2))
		default:
			out = append(out, g.famComb(nv/2))
		}
	}
	return out
}

// manyLongSet: 17..40 paths of 33..90 vertices each (per-path work above
// the small-input thresholds, many times in one call).
func (g *Gen) manyLongSet() clip.Paths64 {
	var out clip.Paths64
	for i, n := 0, g.rng(17, 40); i < n; i++ {
		nv := g.rng(33, 90)
		if g.p(0.5) {
			out = append(out, g.famRadial(nv&^1, 1))
		} else {
			out = append(out, g.famRadial(nv, 2))
		}
	}
	g.spreadY(out)
	return out
}

func (g *Gen) addPoolSet(p clip.Paths64, isD bool) int {
	slack := 0
	if g.p(0.5) {
		slack = g.rng(1, 4)
	}
	if !isD {
		g.pool = append(g.pool, PoolEntry{P64: flat64(p), Slack: slack})
		g.meta = append(g.meta, entryMeta{})
		return len(g.pool) - 1
	}
	div := g.pal.ddiv
	pd := make([][]float64, len(p))
	for i, path := range p {
		f := make([]float64, 0, 2*len(path))
		for _, pt := range path {
			f = append(f, float64(pt.X)/div, float64(pt.Y)/div)
		}
		pd[i] = f
	}
	g.pool = append(g.pool, PoolEntry{PD: pd, IsD: true, Slack: slack})
	g.meta = append(g.meta, entryMeta{isD: true})
	return len(g.pool) - 1
}

func (g *Gen) addPool64(open, small bool) int {
	p := g.pathSet64(open, small)
	slack := 0
	if g.p(0.5) {
		slack = g.rng(1, 4)
	}
	g.pool = append(g.pool, PoolEntry{P64: flat64(p), Slack: slack})
	g.meta = append(g.meta, entryMeta{small: small, open: open})
	return len(g.pool) - 1
}

func (g *Gen) addPoolD(open, small bool) int {
	p := g.pathSet64(open, small)
	div := g.pal.ddiv
	pd := make([][]float64, len(p))
	for i, path := range p {
		f := make([]float64, 0, 2*len(path))
		for _, pt := range path {
			f = append(f, float64(pt.X)/div, float64(pt.Y)/div)
		}
		pd[i] = f
	}
	if g.p(0.15) { // irregular decimals
		for _, f := range pd {
			for k := range f {
				f[k] += g.f(-0.5, 0.5) / div
			}
		}
	}
	slack := 0
	if g.p(0.5) {
		slack = g.rng(1, 4)
	}
	g.pool = append(g.pool, PoolEntry{PD: pd, IsD: true, Slack: slack})
	g.meta = append(g.meta, entryMeta{isD: true, small: small, open: open})
	return len(g.pool) - 1
}

func (g *Gen) initPool() {
	g.initPalette()
	g.distinctY = g.pal.S >= 1e4 && g.p(0.6)
	n64 := g.rng(3, 6)
	for i := 0; i < n64; i++ {
		g.addPool64(false, false)
	}
	g.addPool64(true, false)
	g.addPool64(false, true)
	nD := g.rng(2, 4)
	for i := 0; i < nD; i++ {
		g.addPoolD(false, false)
	}
	g.addPoolD(true, false)
	g.addPoolD(false, true)
	// now and then: inputs that cross the size thresholds of batch code paths
	if g.p(0.3) {
		g.addPoolSet(g.manySet(), g.p(0.4))
	}
	if g.p(0.3) {
		g.addPoolSet(g.longSet(), g.p(0.4))
	}
	if g.p(0.15) {
		g.addPoolSet(g.manyLongSet(), g.p(0.4))
	}
	if g.p(0.06) {
		// a floating-point input with a coordinate no 64-bit integer can
		// represent (the error paths of the conversions)
		bad := g.pathSet64(false, false)
		ref := g.addPoolSet(bad, true)
		if e := &g.pool[ref]; len(e.PD) > 0 && len(e.PD[0]) > 1 {
			e.PD[0][g.n(len(e.PD[0]))] = []float64{1e300, -1e300, 9.3e18}[g.n(3)]
		}
	}
	if g.p(0.04) {
		// a job above 4096 vertices (limits on "large" jobs are only reached by these)
		var huge clip.Paths64
		for i, n := 0, g.rng(50, 70); i < n; i++ {
			huge = append(huge, g.famRadial(g.rng(80, 100)&^1, 1+g.n(2)))
		}
		g.spreadY(huge)
		g.hugeRef = g.addPoolSet(huge, g.p(0.4))
	}
}

func (g *Gen) pick(isD bool, open int, small int) int {
	// open/small: -1 don't care, 0 must not, 1 must
	var cand []int
	for i, m := range g.meta {
		if m.isD != isD {
			continue
		}
		if open >= 0 && m.open != (open == 1) {
			continue
		}
		if small == 1 && !m.small {
			continue
		}
		cand = append(cand, i)
	}
	if len(cand) == 0 {
		if isD {
			return g.addPoolD(open == 1, small == 1)
		}
		return g.addPool64(open == 1, small == 1)
	}
	return cand[g.n(len(cand))]
}

// openFlag: the "is open" argument of a path-level call; mostly true for an
// input made of open paths (the short-path and end-point branches of those
// functions only run with it), a coin otherwise.
func (g *Gen) openFlag(ref int) int64 {
	if ref >= 0 && ref < len(g.meta) && g.meta[ref].open && g.p(0.7) {
		return 1
	}
	return int64(g.n(2))
}

func (g *Gen) ctfr() (int64, int64) {
	c := int64(g.rng(1, 4))
	if g.p(0.04) {
		c = 0 // NoClip
	}
	return c, int64(g.n(4))
}

func (g *Gen) rect() [4]int64 { return g.pal.rects[g.n(len(g.pal.rects))] }

func (g *Gen) delta() float64 { return g.pickF(g.pal.deltas) }

func (g *Gen) arcTol(delta float64) float64 {
	d := math.Abs(delta)
	switch g.n(4) {
	case 0:
		return d * 0.01
	case 1:
		return d * 0.1
	case 2:
		if d <= 100 {
			return 0.25
		}
	}
	return 0
}

func (g *Gen) precUse() (int64, int64) {
	if g.p(0.3) {
		return 2, 0
	}
	return g.pickI(g.pal.precs), 1
}

// ---------------------------------------------------------------------------
// operations
// ---------------------------------------------------------------------------

var fnOps = []struct {
	name string
	w    int
}{
	{"BooleanOpPaths64", 10}, {"UnionPaths64", 2}, {"UnionWithClipPaths64", 1}, {"IntersectWithClipPaths64", 2}, {"DifferenceWithClipPaths64", 1}, {"XorWithClipPaths64", 1},
	{"BooleanOpPolyTree64", 6},
	{"BooleanOpPathsD", 7}, {"UnionPathsD", 1}, {"UnionWithClipPathsD", 1}, {"IntersectWithClipPathsD", 1}, {"DifferenceWithClipPathsD", 1}, {"XorWithClipPathsD", 1},
	{"BooleanOpPolyTreeD", 5},
	{"InflatePaths64", 7}, {"InflatePathsD", 5},
	{"MinkowskiSum64", 2}, {"MinkowskiDiff64", 2}, {"MinkowskiSumD", 2}, {"MinkowskiDiffD", 1},
	{"RectClipPaths64", 3}, {"RectClipPath64", 1}, {"RectClipLinesPaths64", 2}, {"RectClipLinesPath64", 1},
	{"RectClipPathsD", 2}, {"RectClipPathD", 1}, {"RectClipLinesPathsD", 1}, {"RectClipLinesPathD", 1},
	{"TrimCollinear64", 2}, {"TrimCollinearD", 2}, {"SimplifyPath64", 2}, {"SimplifyPaths64", 1}, {"SimplifyPathD", 1}, {"SimplifyPathsD", 1},
	{"StripDuplicates", 1}, {"Area64", 3}, {"AreaD", 1}, {"GetBounds64", 1}, {"ReversePath", 1}, {"Translate64", 1}, {"TranslateD", 1},
	{"Scale64", 2}, {"ScaleD", 2}, {"PointInPolygon", 2}, {"Ellipse64", 2}, {"EllipseD", 1}, {"Scalars", 1}, {"Group", 1}, {"Internals", 1},
}

var fnOpsTotal int

func init() {
	for _, f := range fnOps {
		fnOpsTotal += f.w
	}
}

func (g *Gen) fnOp() Op {
	k := g.n(fnOpsTotal)
	name := ""
	for _, f := range fnOps {
		if k < f.w {
			name = f.name
			break
		}
		k -= f.w
	}
	op := g.fnOpNamed(name)
	if g.p(0.4) {
		op.N = g.n(8) // single-path arguments take another path of their input than the first
	}
	if g.p(0.25) {
		// the caller overwrites and reuses the memory the call returned to it
		op.P = append(op.P, "scribble-res")
	}
	return op
}

func (g *Gen) fnOpNamed(name string) Op {
	S := g.pal.S
	op := Op{K: name}
	c, f := g.ctfr()
	clipRef := func(isD bool) int {
		if g.p(0.12) {
			return -1
		}
		return g.pick(isD, 0, -1)
	}
	switch name {
	case "BooleanOpPaths64", "BooleanOpPolyTree64":
		op.I = []int64{c, f}
		op.A = []int{g.pick(false, 0, -1), clipRef(false)}
	case "UnionPaths64":
		op.I = []int64{f}
		op.A = []int{g.pick(false, 0, -1)}
	case "UnionWithClipPaths64", "IntersectWithClipPaths64", "DifferenceWithClipPaths64", "XorWithClipPaths64":
		op.I = []int64{f}
		op.A = []int{g.pick(false, 0, -1), clipRef(false)}
	case "BooleanOpPathsD", "BooleanOpPolyTreeD":
		p, u := g.precUse()
		op.I = []int64{c, f, p, u}
		op.A = []int{g.pick(true, 0, -1), clipRef(true)}
	case "UnionPathsD":
		p, u := g.precUse()
		op.I = []int64{f, p, u}
		op.A = []int{g.pick(true, 0, -1)}
	case "UnionWithClipPathsD", "IntersectWithClipPathsD", "DifferenceWithClipPathsD", "XorWithClipPathsD":
		p, u := g.precUse()
		op.I = []int64{f, p, u}
		op.A = []int{g.pick(true, 0, -1), clipRef(true)}
	case "InflatePaths64", "InflatePathsD":
		d := g.delta()
		isD := name == "InflatePathsD"
		if isD {
			d /= g.pal.ddiv
		}
		etv := int64(g.n(5))
		open := 0
		if etv >= 2 && g.p(0.7) {
			open = 1
		}
		mask := int64(g.n(4))
		p, u := g.precUse()
		if isD && u != 0 {
			mask |= 4
		}
		op.F = []float64{d, []float64{1, 2, 3, 10}[g.n(4)], g.arcTol(d)}
		op.I = []int64{int64(g.n(4)), etv, mask, p}
		op.A = []int{g.pick(isD, open, -1)}
	case "MinkowskiSum64", "MinkowskiDiff64":
		op.I = []int64{int64(g.n(2))}
		op.A = []int{g.pick(false, -1, 1), g.pick(false, -1, -1)}
	case "MinkowskiSumD", "MinkowskiDiffD":
		p, u := g.precUse()
		op.I = []int64{int64(g.n(2)), p, u}
		op.A = []int{g.pick(true, -1, 1), g.pick(true, -1, -1)}
	case "RectClipPaths64", "RectClipPath64":
		r := g.rect()
		op.I = r[:]
		op.A = []int{g.pick(false, 0, -1)}
	case "RectClipLinesPaths64", "RectClipLinesPath64":
		r := g.rect()
		op.I = r[:]
		op.A = []int{g.pick(false, -1, -1)}
	case "RectClipPathsD", "RectClipPathD", "RectClipLinesPathsD", "RectClipLinesPathD":
		r := g.rect()
		d := g.pal.ddiv
		op.F = []float64{float64(r[0]) / d, float64(r[1]) / d, float64(r[2]) / d, float64(r[3]) / d}
		p, u := g.precUse()
		op.I = []int64{p, u}
		op.A = []int{g.pick(true, -1, -1)}
	case "TrimCollinear64", "StripDuplicates":
		op.A = []int{g.pick(false, -1, -1)}
		op.I = []int64{g.openFlag(op.A[0])}
	case "TrimCollinearD":
		op.A = []int{g.pick(true, -1, -1)}
		op.I = []int64{g.pickI(g.pal.precs), g.openFlag(op.A[0])}
	case "SimplifyPath64", "SimplifyPaths64":
		op.F = []float64{g.pickF(g.pal.eps)}
		op.A = []int{g.pick(false, -1, -1)}
		op.I = []int64{g.openFlag(op.A[0])}
	case "SimplifyPathD", "SimplifyPathsD":
		op.F = []float64{g.pickF(g.pal.eps) / g.pal.ddiv}
		op.A = []int{g.pick(true, -1, -1)}
		op.I = []int64{g.openFlag(op.A[0])}
	case "Area64", "GetBounds64":
		op.A = []int{g.pick(false, -1, -1)}
	case "AreaD":
		op.A = []int{g.pick(true, -1, -1)}
	case "ReversePath":
		op.A = []int{g.pick(false, -1, -1), g.pick(true, -1, -1)}
	case "Translate64":
		op.I = []int64{int64(g.f(-S, S)), int64(g.f(-S, S))}
		op.A = []int{g.pick(false, -1, -1)}
	case "TranslateD":
		op.F = []float64{g.f(-S, S), g.f(-S, S)}
		op.A = []int{g.pick(true, -1, -1)}
	case "Scale64":
		op.F = []float64{[]float64{1, 0.01, 100, 0.5, 1e-3, 1 + 1e-13}[g.n(6)]}
		op.A = []int{g.pick(false, -1, -1)}
	case "ScaleD":
		op.F = []float64{[]float64{1, 0.01, 100, 0.5, 1e3, 1 + 1e-13}[g.n(6)]}
		op.A = []int{g.pick(true, -1, -1)}
	case "PointInPolygon":
		op.I = []int64{int64(g.f(-S, S)), int64(g.f(-S, S))}
		op.A = []int{g.pick(false, 0, -1), g.pick(false, 0, -1)}
	case "Ellipse64":
		op.I = []int64{int64(g.f(-S, S)), int64(g.f(-S, S)), g.pickI(g.pal.steps)}
		op.F = []float64{g.f(-1, S/2), g.f(-1, S/2)}
		if g.p(0.08) {
			op.F[0] = 0 // trivial input: empty result
		}
	case "EllipseD":
		op.I = []int64{g.pickI(g.pal.steps)}
		op.F = []float64{g.f(-1, S/2), g.f(-1, S/2), g.f(-S, S), g.f(-S, S)}
		if g.p(0.08) {
			op.F[0] = 0
		}
	case "Scalars":
		for i := 0; i < 6; i++ {
			op.I = append(op.I, int64(g.f(-S, S)))
			op.F = append(op.F, math.Round(g.f(-S, S)*100)/100)
		}
	case "Internals":
		for i := 0; i < 4; i++ {
			op.I = append(op.I, int64(g.f(-S, S)))
		}
	case "Group":
		op.I = []int64{int64(g.n(4)), int64(g.n(5))}
		op.A = []int{g.pick(false, -1, -1)}
	}
	return op
}

// execPerts draws the solution-argument perturbations of an execute.
func (g *Gen) execPerts(c12 bool) []string {
	var p []string
	switch {
	case g.p(0.15):
		p = append(p, "junk-sol")
	case g.p(0.12):
		p = append(p, "fresh-sol")
	case g.p(0.05):
		p = append(p, "empty-sol")
	case g.p(0.06):
		p = append(p, "other-sol")
	case c12 && g.p(0.06):
		p = append(p, "alias-in")
	}
	if c12 {
		if g.p(0.2) {
			p = append(p, "scribble-out")
		}
		if g.p(0.15) {
			p = append(p, "scribble-in")
		}
		if g.p(0.3) {
			p = append(p, "ref-merged")
		}
		if g.p(0.3) {
			p = append(p, "ref-onecall")
		}
	}
	if g.p(0.1) {
		p = append(p, "reentrant")
	}
	return p
}

// history returns the operations of one object's life. The operations are
// returned in order; the caller may interleave them with other operations.
func (g *Gen) history(slot int, c12 bool) []Op {
	switch g.n(10) {
	case 0, 1, 2, 3:
		return g.engineHistory(slot, false, c12)
	case 4, 5, 6:
		return g.engineHistory(slot, true, c12)
	case 7, 8:
		return g.offsetHistory(slot, c12)
	default:
		return g.rectHistory(slot)
	}
}

func (g *Gen) engineHistory(slot int, isD bool, c12 bool) []Op {
	pre := "C64."
	if isD {
		pre = "CD."
	}
	var ops []Op
	newOp := Op{K: pre + "New", O: slot}
	if isD {
		newOp.I = []int64{g.pickI(g.pal.precs)}
	}
	ops = append(ops, newOp)

	type batch struct {
		ref   int
		ptype int64
		open  int64
	}
	var batches []batch
	for i, n := 0, g.rng(1, 3); i < n; i++ {
		batches = append(batches, batch{g.pick(isD, 0, -1), 0, 0})
	}
	if g.p(0.35) {
		batches = append(batches, batch{g.pick(isD, 1, -1), 0, 1})
	}
	for i, n := 0, g.rng(0, 2); i < n; i++ {
		batches = append(batches, batch{g.pick(isD, 0, -1), 1, 0})
	}
	if g.p(0.5) { // add-reorder
		g.r.Shuffle(len(batches), func(i, j int) { batches[i], batches[j] = batches[j], batches[i] })
	}
	addOp := func(b batch) Op {
		k := pre + "AddPaths"
		switch {
		case !isD && g.p(0.15):
			k = "C64.AddPath"
		case isD && g.p(0.2):
			k = "CD.AddPathsScaleFn"
		case isD && g.p(0.05):
			k = "CD.AddPath64"
			return Op{K: k, O: slot, A: []int{g.pick(false, int(b.open), -1)}, I: []int64{b.ptype, b.open}}
		}
		op := Op{K: k, O: slot, A: []int{b.ref}, I: []int64{b.ptype, b.open}}
		if g.p(0.1) {
			op.P = append(op.P, "reentrant")
		}
		return op
	}
	execOp := func() Op {
		c, f := g.ctfr()
		forms := []string{"Execute", "Execute", "ExecuteOC", "ExecutePolyTree"}
		if isD {
			forms = append(forms, "ExecuteScaleFn")
		}
		return Op{K: pre + forms[g.n(len(forms))], O: slot, I: []int64{c, f}, P: g.execPerts(c12)}
	}
	// deliver the batches; with some probability executes happen in between
	late := 0
	if g.p(0.35) && len(batches) > 1 {
		late = g.rng(1, len(batches)-1)
	}
	early := batches[:len(batches)-late]
	for _, b := range early {
		ops = append(ops, addOp(b))
	}
	for i, n := 0, g.rng(1, 4); i < n; i++ {
		ops = append(ops, execOp())
	}
	for _, b := range batches[len(batches)-late:] {
		ops = append(ops, addOp(b))
		if g.p(0.5) {
			ops = append(ops, execOp())
		}
	}
	if late > 0 {
		for i, n := 0, g.rng(1, 2); i < n; i++ {
			ops = append(ops, execOp())
		}
	}
	return ops
}

func (g *Gen) offsetHistory(slot int, c12 bool) []Op {
	var ops []Op
	ops = append(ops, Op{K: "CO.New", O: slot, F: []float64{[]float64{0, 2, 3, 1}[g.n(4)], []float64{0, 0, 0.25, 1}[g.n(4)]}, I: []int64{int64(g.n(2)), int64(g.n(2))}})
	addGroup := func() Op {
		etv := int64(g.n(5))
		open := 0
		if etv >= 2 && g.p(0.7) {
			open = 1
		}
		return Op{K: "CO.AddPaths", O: slot, A: []int{g.pick(false, open, -1)}, I: []int64{int64(g.n(4)), etv}}
	}
	exec := func() Op {
		d := g.delta()
		return Op{K: "CO.Execute64", O: slot, F: []float64{d}, P: g.execPerts(c12)}
	}
	for i, n := 0, g.rng(1, 3); i < n; i++ {
		ops = append(ops, addGroup())
	}
	if g.p(0.08) {
		ops = ops[:1] // an offsetter without any group
	}
	for i, n := 0, g.rng(2, 5); i < n; i++ {
		switch g.n(8) {
		case 0:
			ops = append(ops, Op{K: "CO.SetCallback", O: slot, I: []int64{int64(g.n(4))}, F: []float64{g.delta()}, P: g.maybe("reentrant", 0.3)})
		case 1:
			which := int64(g.n(5))
			v := []float64{0, 0.25, 1, 2, 3}[g.n(5)]
			ops = append(ops, Op{K: "CO.SetField", O: slot, I: []int64{which, int64(g.n(2))}, F: []float64{v}})
		case 2:
			ops = append(ops, addGroup())
		}
		ops = append(ops, exec())
	}
	return ops
}

func (g *Gen) maybe(p string, prob float64) []string {
	if g.p(prob) {
		return []string{p}
	}
	return nil
}

func (g *Gen) rectHistory(slot int) []Op {
	r := g.rect()
	k := "RC.New"
	open := 0
	if g.p(0.4) {
		k = "RCL.New"
		open = -1
	}
	ops := []Op{{K: k, O: slot, I: r[:]}}
	for i, n := 0, g.rng(2, 4); i < n; i++ {
		ops = append(ops, Op{K: "RC.Execute", O: slot, A: []int{g.pick(false, open, -1)}})
	}
	return ops
}

// interleave merges several operation sequences keeping each one's order.
func (g *Gen) interleave(seqs [][]Op) []Op {
	var out []Op
	idx := make([]int, len(seqs))
	for {
		var live []int
		for i := range seqs {
			if idx[i] < len(seqs[i]) {
				live = append(live, i)
			}
		}
		if len(live) == 0 {
			return out
		}
		i := live[g.n(len(live))]
		// take a short run from the chosen sequence
		for k, n := 0, g.rng(1, 3); k < n && idx[i] < len(seqs[i]); k++ {
			out = append(out, seqs[i][idx[i]])
			idx[i]++
		}
	}
}

// taskScript builds the script of one task: object histories and
// package-level calls interleaved.
func (g *Gen) taskScript(nObj, nFn int, c12 bool) []Op {
	var seqs [][]Op
	for s := 0; s < nObj; s++ {
		seqs = append(seqs, g.history(s, c12))
	}
	var fns []Op
	for i := 0; i < nFn; i++ {
		fns = append(fns, g.fnOp())
	}
	if len(fns) > 0 {
		seqs = append(seqs, fns)
	}
	return g.interleave(seqs)
}

// focusKind picks the kind of call a focused run concentrates on.
func (g *Gen) focusKind() string {
	kinds := []string{"InflatePaths64", "InflatePaths64", "InflatePathsD", "history:co", "SimplifyPath64", "SimplifyPathD", "SimplifyPaths64",
		"TrimCollinear64", "TrimCollinearD", "RectClipPaths64", "RectClipLinesPaths64", "RectClipPathsD", "MinkowskiSum64", "MinkowskiSumD",
		"BooleanOpPaths64", "BooleanOpPathsD", "BooleanOpPolyTree64", "Scale64", "ScaleD", "Translate64", "Ellipse64", "Area64", "StripDuplicates", "ReversePath", "PointInPolygon"}
	if g.p(0.25) {
		return fnOps[g.n(len(fnOps))].name
	}
	return kinds[g.n(len(kinds))]
}

// focusOps returns one call (or one short object life) of the given kind.
func (g *Gen) focusOps(kind string, slot int) []Op {
	if kind == "history:co" {
		return g.offsetHistory(slot, false)
	}
	op := g.fnOpNamed(kind)
	if g.p(0.4) {
		op.N = g.n(8)
	}
	// near-duplicates: the first focus call of a run is the base; later ones
	// are copies of it with one or two arguments drawn again, so that the
	// overlapping calls agree on most arguments and differ in a few
	if g.focusBase == nil {
		g.focusBase = map[string]*Op{}
	}
	if base, ok := g.focusBase[kind]; !ok {
		cp := op
		g.focusBase[kind] = &cp
	} else if g.p(0.7) {
		fresh := op
		op = *base
		op.I = append([]int64{}, base.I...)
		op.F = append([]float64{}, base.F...)
		op.A = append([]int{}, base.A...)
		op.P = append([]string{}, base.P...)
		for k, n := 0, g.rng(0, 2); k < n; k++ {
			switch g.n(3) {
			case 0:
				if len(op.I) > 0 && len(fresh.I) == len(op.I) {
					i := g.n(len(op.I))
					op.I[i] = fresh.I[i]
				}
			case 1:
				if len(op.F) > 0 && len(fresh.F) == len(op.F) {
					i := g.n(len(op.F))
					op.F[i] = fresh.F[i]
				}
			default:
				if len(op.A) > 0 && len(fresh.A) == len(op.A) {
					i := g.n(len(op.A))
					op.A[i] = fresh.A[i]
				}
			}
		}
		if kind == "InflatePathsD" || kind == "InflatePaths64" {
			op.I[2] |= fresh.I[2] & 4 // whether a precision option is passed follows the fresh draw
			if g.p(0.5) && len(op.I) > 3 {
				op.I[3] = fresh.I[3]
				op.I[2] |= 4
			}
		}
		return []Op{op}
	}
	// with some probability all focus calls of a run work on the same, largest
	// input of the right type (shared read-only input; size thresholds)
	if g.focusShare && len(op.A) > 0 && op.A[0] >= 0 && op.A[0] < len(g.meta) {
		wantD := g.meta[op.A[0]].isD
		best, bestN := -1, -1
		for i, e := range g.pool {
			if e.IsD != wantD {
				continue
			}
			n := 0
			for _, p := range e.P64 {
				n += len(p)
			}
			for _, p := range e.PD {
				n += len(p)
			}
			if n > bestN {
				best, bestN = i, n
			}
		}
		if best >= 0 {
			op.A[0] = best
		}
	}
	switch kind {
	case "InflatePaths64", "InflatePathsD":
		if g.p(0.6) && len(op.I) > 1 {
			op.I[0] = 3 // Round joins: the arc parameters are the part calls can disagree on
			if len(op.F) > 2 && g.p(0.7) {
				op.F[2] = g.arcTol(op.F[0])
				op.I[2] |= 2
			}
		}
	}
	return []Op{op}
}
