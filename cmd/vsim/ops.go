package main

import (
	"fmt"
	"math"
	"sort"
	"strconv"
	"strings"
	"unsafe"

	clip "github.com/bolom009/go-clipper2"
	"vsimrt"
)

// ---------------------------------------------------------------------------
// Execution context of one task
// ---------------------------------------------------------------------------

type eng64 interface {
	AddPaths(paths clip.Paths64, polytype clip.PathType, isOpen bool)
	AddPath(path clip.Path64, polytype clip.PathType, isOpen bool)
	Execute(clipType clip.ClipType, fillRule clip.FillRule, solution *clip.Paths64) bool
	ExecuteOC(clipType clip.ClipType, fillRule clip.FillRule, solutionClosed, solutionOpen *clip.Paths64) bool
	ExecutePolyTree64(clipType clip.ClipType, fillRule clip.FillRule, polytree *clip.PolyTree64, openPaths *clip.PathsD) bool
}

type engD interface {
	AddPaths(paths clip.PathsD, polytype clip.PathType, isOpen bool)
	AddPathsWithScaleFunc(paths clip.PathsD, polytype clip.PathType, isOpen bool, scaleFn func(paths clip.PathsD, scale float64) clip.Paths64)
	AddPath(path clip.Path64, polytype clip.PathType, isOpen bool)
	Execute(clipType clip.ClipType, fillRule clip.FillRule, solution *clip.PathsD) bool
	ExecuteOC(clipType clip.ClipType, fillRule clip.FillRule, solutionClosed, solutionOpen *clip.PathsD) bool
	ExecuteWithScaleFunc(clipType clip.ClipType, fillRule clip.FillRule, solutionClosed, solutionOpen *clip.PathsD, scaleFn func(path clip.Path64, scale float64) clip.PathD) bool
	ExecutePolyTreeD(clipType clip.ClipType, fillRule clip.FillRule, polytree *clip.PolyTreeD, openPaths *clip.PathsD) bool
}

type addRec struct {
	isD   bool
	p64   clip.Paths64
	pd    clip.PathsD
	ptype clip.PathType
	open  bool
	via   string
	jt    clip.JoinType
	et    clip.EndType
}

// Obj is one object owned by a task together with the shadow log the
// reference model is built from.
type Obj struct {
	kind string // c64 cd co rc rcl
	e64  eng64
	ed   engD
	co   *clip.ClipperOffset
	rc   *clip.RectClip64
	rcl  *clip.RectClipLines64

	prec    int
	newF    [2]float64
	newB    [2]bool
	rect    [4]int64
	adds    []addRec
	cbKind  int64
	cbD     float64
	cbState *cbState

	execs        int
	scribbledOut bool
	scribbledIn  bool
	addAfterExec bool
	hadTree      bool
	dead         bool

	// caller-side variables that persist between executes
	sol64, open64 clip.Paths64
	solD, openD   clip.PathsD
	tree64        *clip.PolyTree64
	treeD         *clip.PolyTreeD
	treeOpen      clip.PathsD

	// private input copies handed to this object (for scribble-in / alias-in)
	priv64 []clip.Paths64
	privD  []clip.PathsD
}

type watch struct {
	isD  bool
	p64  clip.Paths64
	pd   clip.PathsD
	dig  uint64
	live bool
	arg  int
	ref  int
}

// TaskStats are per-task counters (merged after the join; never shared).
type TaskStats struct {
	Ops        int64
	OpsByKind  map[string]int64
	Fired      map[string]int64
	Probes     map[string]int64
	Judged     map[string]int64
	Steps      int64
	Diverged   int64
	Panics     int64
	RefDiverge int64
}

func newStats() *TaskStats {
	return &TaskStats{OpsByKind: map[string]int64{}, Fired: map[string]int64{}, Probes: map[string]int64{}, Judged: map[string]int64{}}
}

func (s *TaskStats) merge(o *TaskStats) {
	s.Ops += o.Ops
	s.Steps += o.Steps
	s.Diverged += o.Diverged
	s.Panics += o.Panics
	s.RefDiverge += o.RefDiverge
	for k, v := range o.OpsByKind {
		s.OpsByKind[k] += v
	}
	for k, v := range o.Fired {
		s.Fired[k] += v
	}
	for k, v := range o.Probes {
		s.Probes[k] += v
	}
	for k, v := range o.Judged {
		s.Judged[k] += v
	}
}

// Violation found while a script ran.
type Violation struct {
	Class    string `json:"class"` // immutability | history | repeat | concurrent-outcome | race | shared-input | deadlock
	Task     int    `json:"task"`
	OpIndex  int    `json:"op_index"`
	OpKind   string `json:"op_kind"`
	Detail   string `json:"detail"`
	Symptom  string `json:"symptom"`
	Pert     string `json:"perturbation,omitempty"`
	Expected string `json:"expected,omitempty"`
	Observed string `json:"observed,omitempty"`
}

// keptPath is a result path the caller still holds (an alias) with the
// digest it had when it was returned.
type keptPath struct {
	p64  clip.Path64
	pd   clip.PathD
	dig  uint64
	op   int
	kind string
	obj  *Obj
}

type Ctx struct {
	scribbleSeq int
	curKind     string
	curN        int
	ranges   []addrRange
	kept     []keptPath
	task     int
	pool     []*Input
	private  bool
	objs     []*Obj
	budget   int64
	st       *TaskStats
	watches  []watch
	viol     []Violation
	opIndex  int
	judge    bool // C12 reference-model judgement on
	inCb     int
	peers    []*Obj // objects of this task usable for re-entrant calls
	quiet    bool   // reference execution: no stats, no judging
	noFmt    bool   // race runs: keep fmt (and its real sync.Pool) out of the tasks
	reuse    map[int]*Input // C17 reused-buffers variant: one caller-side buffer per input
	warm     bool           // ... being filled with other content of the same shape
	lastPriv struct {
		p64 clip.Paths64
		pd  clip.PathsD
	}
	fnPriv64 []clip.Paths64
	fnPrivD  []clip.PathsD
}

func newCtx(task int, pool []*Input, private bool, budget int64) *Ctx {
	return &Ctx{task: task, pool: pool, private: private, budget: budget, st: newStats()}
}

func (c *Ctx) obj(slot int) *Obj {
	if slot < 0 || slot >= len(c.objs) {
		return nil
	}
	return c.objs[slot]
}

func (c *Ctx) setObj(slot int, o *Obj) {
	if slot < 0 || slot > 64 {
		return
	}
	for len(c.objs) <= slot {
		c.objs = append(c.objs, nil)
	}
	c.objs[slot] = o
}

func (c *Ctx) fire(kind string) {
	if !c.quiet {
		c.st.Fired[kind]++
	}
}
func (c *Ctx) probe(kind string) {
	if !c.quiet {
		c.st.Probes[kind]++
	}
}

// in64 hands out the caller-owned 64-bit path set op.A[k] and registers it
// with the immutability monitor.
func (c *Ctx) in64(op *Op, k int) clip.Paths64 {
	ref := op.a(k)
	if ref < 0 || ref >= len(c.pool) || c.pool[ref].isD {
		return nil
	}
	var p clip.Paths64
	if c.reuse != nil {
		// the caller keeps ONE buffer per input and argument position and
		// refills it before every call (an input passed as two arguments of
		// one call is two equal buffers here and one slice in the reference
		// execution: equal inputs either way)
		in := c.reuse[ref<<3|k&7]
		if in == nil {
			in = &Input{p64: privCopy64(c.pool[ref].p64)}
			c.reuse[ref<<3|k&7] = in
		}
		for i, src := range c.pool[ref].p64 {
			for j, pt := range src {
				if c.warm {
					pt = clip.Point64{X: pt.X + 37, Y: pt.Y - 11}
				}
				in.p64[i][j] = pt
			}
		}
		p = in.p64
	} else if c.private {
		p = privCopy64(c.pool[ref].p64)
		c.lastPriv.p64 = p
	} else {
		p = c.pool[ref].p64
	}
	c.watches = append(c.watches, watch{p64: p, dig: digest64(p), live: true, arg: k, ref: ref})
	return p
}

func (c *Ctx) inD(op *Op, k int) clip.PathsD {
	ref := op.a(k)
	if ref < 0 || ref >= len(c.pool) || !c.pool[ref].isD {
		return nil
	}
	var p clip.PathsD
	if c.reuse != nil {
		in := c.reuse[ref<<3|k&7]
		if in == nil {
			in = &Input{isD: true, pd: privCopyD(c.pool[ref].pd)}
			c.reuse[ref<<3|k&7] = in
		}
		for i, src := range c.pool[ref].pd {
			for j, pt := range src {
				if c.warm {
					pt = clip.PointD{X: pt.X + 3.7, Y: pt.Y - 1.1}
				}
				in.pd[i][j] = pt
			}
		}
		p = in.pd
	} else if c.private {
		p = privCopyD(c.pool[ref].pd)
		c.lastPriv.pd = p
	} else {
		p = c.pool[ref].pd
	}
	c.watches = append(c.watches, watch{isD: true, pd: p, dig: digestD(p), live: true, arg: k, ref: ref})
	return p
}

// privCopy keeps the slack/sentinel layout of the pool entry.
func privCopy64(src clip.Paths64) clip.Paths64 {
	if src == nil {
		return nil
	}
	out := make(clip.Paths64, len(src), cap(src))
	for i, p := range src {
		q := make(clip.Path64, len(p), cap(p))
		copy(q[:cap(q)], p[:cap(p)])
		out[i] = q
	}
	return out
}

func privCopyD(src clip.PathsD) clip.PathsD {
	if src == nil {
		return nil
	}
	out := make(clip.PathsD, len(src), cap(src))
	for i, p := range src {
		q := make(clip.PathD, len(p), cap(p))
		copy(q[:cap(q)], p[:cap(p)])
		out[i] = q
	}
	return out
}

// nth64 / nthD: the path a single-path argument takes from an input (Op.N
// modulo the number of paths; 0 in scripts recorded before the field existed)
func (c *Ctx) nth64(p clip.Paths64) clip.Path64 {
	if len(p) == 0 {
		return nil
	}
	return p[c.curN%len(p)]
}
func (c *Ctx) nthD(p clip.PathsD) clip.PathD {
	if len(p) == 0 {
		return nil
	}
	return p[c.curN%len(p)]
}

// unwatch removes the watch on a path set that the caller deliberately hands
// over as an output argument.
func (c *Ctx) unwatch64(p clip.Paths64) {
	for i := range c.watches {
		if !c.watches[i].isD && len(c.watches[i].p64) > 0 && len(p) > 0 && &c.watches[i].p64[0] == &p[0] {
			c.watches[i].live = false
		}
	}
}

func (c *Ctx) checkWatches(op *Op) {
	for _, w := range c.watches {
		if !w.live {
			continue
		}
		var d uint64
		if w.isD {
			d = digestD(w.pd)
		} else {
			d = digest64(w.p64)
		}
		if d != w.dig {
			c.viol = append(c.viol, Violation{Class: "immutability", Task: c.task, OpIndex: c.opIndex, OpKind: op.K,
				Symptom: "input-modified", Detail: fmt.Sprintf("%s modified caller-owned argument %d (pool entry %d)", op.K, w.arg, w.ref)})
		}
	}
	c.watches = c.watches[:0]
}

// ---------------------------------------------------------------------------
// The catalogue
// ---------------------------------------------------------------------------

type opDef struct {
	name string
	apis []string // exported entry points this operation exercises
	obj  string   // object kind the op acts on ("" for package-level functions)
	exec bool     // an execute on an object (judged by C12)
	run  func(c *Ctx, op *Op, e *Enc, out *Outcome)
}

var catalogue = map[string]*opDef{}
var catalogueOrder []string

func reg(name string, apis []string, run func(c *Ctx, op *Op, e *Enc, out *Outcome)) *opDef {
	d := &opDef{name: name, apis: apis, run: run}
	if _, dup := catalogue[name]; dup {
		panic("duplicate op " + name)
	}
	catalogue[name] = d
	catalogueOrder = append(catalogueOrder, name)
	return d
}

func ct(op *Op, k int) clip.ClipType   { return clip.ClipType(uint8(op.i(k))) }
func fr(op *Op, k int) clip.FillRule   { return clip.FillRule(uint8(op.i(k))) }
func jt(op *Op, k int) clip.JoinType   { return clip.JoinType(uint8(op.i(k))) }
func et(op *Op, k int) clip.EndType    { return clip.EndType(uint8(op.i(k))) }
func ptype(op *Op, k int) clip.PathType { return clip.PathType(uint8(op.i(k))) }

func precArgs(op *Op, kPrec, kUse int) []int {
	if op.i(kUse) != 0 {
		return []int{int(op.i(kPrec))}
	}
	return nil
}

func setG64(out *Outcome, ok bool, c64, o64 clip.Paths64) {
	out.hasG, out.ok, out.c64, out.o64 = true, ok, c64, o64
}
func setGD(out *Outcome, ok bool, cD, oD clip.PathsD, scale float64) {
	out.hasG, out.isD, out.ok, out.cD, out.oD, out.scale = true, true, ok, cD, oD, scale
}

func init() {
	// ---- boolean operations, 64-bit ----
	reg("BooleanOpPaths64", []string{"BooleanOpPaths64", "NewClipper64", "clipper64.AddPaths", "clipper64.Execute", "clipper64.ExecuteOC"}, func(c *Ctx, op *Op, e *Enc, out *Outcome) {
		r := clip.BooleanOpPaths64(ct(op, 0), c.in64(op, 0), c.in64(op, 1), fr(op, 1))
		e.paths64("r", r)
		setG64(out, true, r, nil)
	})
	wrap64 := func(name string, f func(s, c clip.Paths64, fr clip.FillRule) clip.Paths64) {
		reg(name, []string{name}, func(c *Ctx, op *Op, e *Enc, out *Outcome) {
			r := f(c.in64(op, 0), c.in64(op, 1), fr(op, 0))
			e.paths64("r", r)
			setG64(out, true, r, nil)
		})
	}
	reg("UnionPaths64", []string{"UnionPaths64"}, func(c *Ctx, op *Op, e *Enc, out *Outcome) {
		r := clip.UnionPaths64(c.in64(op, 0), fr(op, 0))
		e.paths64("r", r)
	})
	wrap64("UnionWithClipPaths64", clip.UnionWithClipPaths64)
	wrap64("IntersectWithClipPaths64", clip.IntersectWithClipPaths64)
	wrap64("DifferenceWithClipPaths64", clip.DifferenceWithClipPaths64)
	wrap64("XorWithClipPaths64", clip.XorWithClipPaths64)
	reg("BooleanOpPolyTree64", []string{"BooleanOpPolyTree64", "NewPolyTree64", "clipper64.ExecutePolyTree64", "PolyPathBase.Polygon", "PolyPathBase.Count", "PolyPathBase.GetChildren", "PolyPathBase.IsHole", "PolyPathBase.Level", "PolyPathBase.Scale", "PolyPathBase.ToString", "PolyPathBase.ToStringInternal", "PolyPathBase.Clear", "PolyPathBase.AddChild", "NewPolyPathBase"}, func(c *Ctx, op *Op, e *Enc, out *Outcome) {
		t := clip.BooleanOpPolyTree64(ct(op, 0), c.in64(op, 0), c.in64(op, 1), fr(op, 1))
		if t == nil {
			e.s("tree=nil")
			return
		}
		e.s("tree=").polyBase(t.PolyPathBase, 0)
		if !c.noFmt {
			e.s(" str=").s(t.ToString())
		}
	})

	// ---- boolean operations, floating point ----
	reg("BooleanOpPathsD", []string{"BooleanOpPathsD", "NewClipperD", "clipperD.AddPaths", "clipperD.Execute", "clipperD.ExecuteOC"}, func(c *Ctx, op *Op, e *Enc, out *Outcome) {
		r := clip.BooleanOpPathsD(ct(op, 0), c.inD(op, 0), c.inD(op, 1), fr(op, 1), precArgs(op, 2, 3)...)
		e.pathsD("r", r)
	})
	reg("UnionPathsD", []string{"UnionPathsD"}, func(c *Ctx, op *Op, e *Enc, out *Outcome) {
		r := clip.UnionPathsD(c.inD(op, 0), fr(op, 0), precArgs(op, 1, 2)...)
		e.pathsD("r", r)
	})
	wrapD := func(name string, f func(s, c clip.PathsD, fr clip.FillRule, p ...int) clip.PathsD) {
		reg(name, []string{name}, func(c *Ctx, op *Op, e *Enc, out *Outcome) {
			r := f(c.inD(op, 0), c.inD(op, 1), fr(op, 0), precArgs(op, 1, 2)...)
			e.pathsD("r", r)
		})
	}
	wrapD("UnionWithClipPathsD", clip.UnionWithClipPathsD)
	wrapD("IntersectWithClipPathsD", clip.IntersectWithClipPathsD)
	wrapD("DifferenceWithClipPathsD", clip.DifferenceWithClipPathsD)
	wrapD("XorWithClipPathsD", clip.XorWithClipPathsD)
	reg("BooleanOpPolyTreeD", []string{"BooleanOpPolyTreeD", "NewPolyTreeD", "clipperD.ExecutePolyTreeD", "PolyPathBase.SetScale"}, func(c *Ctx, op *Op, e *Enc, out *Outcome) {
		t := clip.BooleanOpPolyTreeD(ct(op, 0), c.inD(op, 0), c.inD(op, 1), fr(op, 1), precArgs(op, 2, 3)...)
		if t == nil {
			e.s("tree=nil")
			return
		}
		e.s("tree=").polyBase(t.PolyPathBase, 0)
		if !c.noFmt {
			e.s(" str=").s(t.ToString())
		}
	})

	// ---- offsetting ----
	inflOpts := func(op *Op) []clip.InflateOption {
		var o []clip.InflateOption
		m := op.i(2)
		if m&1 != 0 {
			o = append(o, clip.WithMitterLimit(op.f(1)))
		}
		if m&2 != 0 {
			o = append(o, clip.WithArcTolerance(op.f(2)))
		}
		if m&4 != 0 {
			o = append(o, clip.WithPrecision(int(op.i(3))))
		}
		return o
	}
	reg("InflatePaths64", []string{"InflatePaths64", "WithMitterLimit", "WithArcTolerance", "NewClipperOffset", "ClipperOffset.AddPaths", "ClipperOffset.Execute64", "NewGroup", "Group.GetLowestPathInfo", "ClipperOffset.CalcSolutionCapacity"}, func(c *Ctx, op *Op, e *Enc, out *Outcome) {
		r := clip.InflatePaths64(c.in64(op, 0), op.f(0), jt(op, 0), et(op, 1), inflOpts(op)...)
		e.paths64("r", r)
	})
	reg("InflatePathsD", []string{"InflatePathsD", "WithPrecision"}, func(c *Ctx, op *Op, e *Enc, out *Outcome) {
		r := clip.InflatePathsD(c.inD(op, 0), op.f(0), jt(op, 0), et(op, 1), inflOpts(op)...)
		e.pathsD("r", r)
	})

	// ---- Minkowski ----
	reg("MinkowskiSum64", []string{"MinkowskiSum64"}, func(c *Ctx, op *Op, e *Enc, out *Outcome) {
		e.paths64("r", clip.MinkowskiSum64(c.nth64(c.in64(op, 0)), c.nth64(c.in64(op, 1)), op.i(0) != 0))
	})
	reg("MinkowskiDiff64", []string{"MinkowskiDiff64"}, func(c *Ctx, op *Op, e *Enc, out *Outcome) {
		e.paths64("r", clip.MinkowskiDiff64(c.nth64(c.in64(op, 0)), c.nth64(c.in64(op, 1)), op.i(0) != 0))
	})
	reg("MinkowskiSumD", []string{"MinkowskiSumD"}, func(c *Ctx, op *Op, e *Enc, out *Outcome) {
		e.pathsD("r", clip.MinkowskiSumD(c.nthD(c.inD(op, 0)), c.nthD(c.inD(op, 1)), op.i(0) != 0, precArgs(op, 1, 2)...))
	})
	reg("MinkowskiDiffD", []string{"MinkowskiDiffD"}, func(c *Ctx, op *Op, e *Enc, out *Outcome) {
		e.pathsD("r", clip.MinkowskiDiffD(c.nthD(c.inD(op, 0)), c.nthD(c.inD(op, 1)), op.i(0) != 0, precArgs(op, 1, 2)...))
	})

	// ---- rectangle clipping ----
	r64 := func(op *Op, k int) clip.Rect64 { return clip.NewRect64(op.i(k), op.i(k+1), op.i(k+2), op.i(k+3)) }
	rD := func(op *Op, k int) clip.RectD { return clip.NewRectD(op.f(k), op.f(k+1), op.f(k+2), op.f(k+3)) }
	reg("RectClipPaths64", []string{"RectClipPaths64", "NewRectClip64", "RectClip64.Execute", "NewRect64"}, func(c *Ctx, op *Op, e *Enc, out *Outcome) {
		e.paths64("r", clip.RectClipPaths64(r64(op, 0), c.in64(op, 0)))
	})
	reg("RectClipPath64", []string{"RectClipPath64"}, func(c *Ctx, op *Op, e *Enc, out *Outcome) {
		e.paths64("r", clip.RectClipPath64(r64(op, 0), c.nth64(c.in64(op, 0))))
	})
	reg("RectClipLinesPaths64", []string{"RectClipLinesPaths64", "NewRectClipLines64"}, func(c *Ctx, op *Op, e *Enc, out *Outcome) {
		e.paths64("r", clip.RectClipLinesPaths64(r64(op, 0), c.in64(op, 0)))
	})
	reg("RectClipLinesPath64", []string{"RectClipLinesPath64"}, func(c *Ctx, op *Op, e *Enc, out *Outcome) {
		e.paths64("r", clip.RectClipLinesPath64(r64(op, 0), c.nth64(c.in64(op, 0))))
	})
	reg("RectClipPathsD", []string{"RectClipPathsD", "NewRectD", "ScaleRectD"}, func(c *Ctx, op *Op, e *Enc, out *Outcome) {
		e.pathsD("r", clip.RectClipPathsD(rD(op, 0), c.inD(op, 0), precArgs(op, 0, 1)...))
	})
	reg("RectClipPathD", []string{"RectClipPathD"}, func(c *Ctx, op *Op, e *Enc, out *Outcome) {
		e.pathsD("r", clip.RectClipPathD(rD(op, 0), c.nthD(c.inD(op, 0))))
	})
	reg("RectClipLinesPathsD", []string{"RectClipLinesPathsD"}, func(c *Ctx, op *Op, e *Enc, out *Outcome) {
		e.pathsD("r", clip.RectClipLinesPathsD(rD(op, 0), c.inD(op, 0), precArgs(op, 0, 1)...))
	})
	reg("RectClipLinesPathD", []string{"RectClipLinesPathD"}, func(c *Ctx, op *Op, e *Enc, out *Outcome) {
		e.pathsD("r", clip.RectClipLinesPathD(rD(op, 0), c.nthD(c.inD(op, 0))))
	})

	// ---- path utilities ----
	reg("TrimCollinear64", []string{"TrimCollinear64"}, func(c *Ctx, op *Op, e *Enc, out *Outcome) {
		e.s("r=").path64(clip.TrimCollinear64(c.nth64(c.in64(op, 0)), op.i(0) != 0))
	})
	reg("TrimCollinearD", []string{"TrimCollinearD"}, func(c *Ctx, op *Op, e *Enc, out *Outcome) {
		e.s("r=").pathD(clip.TrimCollinearD(c.nthD(c.inD(op, 0)), int(op.i(0)), op.i(1) != 0))
	})
	reg("SimplifyPath64", []string{"SimplifyPath64"}, func(c *Ctx, op *Op, e *Enc, out *Outcome) {
		e.s("r=").path64(clip.SimplifyPath64(c.nth64(c.in64(op, 0)), op.f(0), op.i(0) != 0))
	})
	reg("SimplifyPaths64", []string{"SimplifyPaths64"}, func(c *Ctx, op *Op, e *Enc, out *Outcome) {
		e.paths64("r", clip.SimplifyPaths64(c.in64(op, 0), op.f(0), op.i(0) != 0))
	})
	reg("SimplifyPathD", []string{"SimplifyPathD"}, func(c *Ctx, op *Op, e *Enc, out *Outcome) {
		e.s("r=").pathD(clip.SimplifyPathD(c.nthD(c.inD(op, 0)), op.f(0), op.i(0) != 0))
	})
	reg("SimplifyPathsD", []string{"SimplifyPathsD"}, func(c *Ctx, op *Op, e *Enc, out *Outcome) {
		e.pathsD("r", clip.SimplifyPathsD(c.inD(op, 0), op.f(0), op.i(0) != 0))
	})
	reg("StripDuplicates", []string{"StripDuplicates"}, func(c *Ctx, op *Op, e *Enc, out *Outcome) {
		e.s("r=").path64(clip.StripDuplicates(c.nth64(c.in64(op, 0)), op.i(0) != 0))
	})
	reg("Area64", []string{"Area64", "AreaPaths64", "IsPositive64"}, func(c *Ctx, op *Op, e *Enc, out *Outcome) {
		p := c.in64(op, 0)
		e.s("area=").flt(clip.AreaPaths64(p))
		for _, q := range p {
			e.s(" ").flt(clip.Area64(q)).boolean(" pos", clip.IsPositive64(q))
		}
	})
	reg("AreaD", []string{"AreaD", "AreaPathsD", "IsPositiveD"}, func(c *Ctx, op *Op, e *Enc, out *Outcome) {
		p := c.inD(op, 0)
		e.s("area=").flt(clip.AreaPathsD(p))
		for _, q := range p {
			e.s(" ").flt(clip.AreaD(q)).boolean(" pos", clip.IsPositiveD(q))
		}
	})
	reg("GetBounds64", []string{"GetBounds64", "Rect64.AsPath"}, func(c *Ctx, op *Op, e *Enc, out *Outcome) {
		e.rect64("r", clip.GetBounds64(c.nth64(c.in64(op, 0))))
	})
	reg("ReversePath", []string{"ReversePath"}, func(c *Ctx, op *Op, e *Enc, out *Outcome) {
		e.s("r=").path64(clip.ReversePath(c.nth64(c.in64(op, 0))))
		e.s(" d=").pathD(clip.ReversePath(c.nthD(c.inD(op, 1))))
	})
	reg("Translate64", []string{"OffsetPath", "TranslatePath64", "TranslatePaths64"}, func(c *Ctx, op *Op, e *Enc, out *Outcome) {
		p := c.in64(op, 0)
		e.s("o=").path64(clip.OffsetPath(c.nth64(p), op.i(0), op.i(1)))
		e.s(" t=").path64(clip.TranslatePath64(c.nth64(p), op.i(0), op.i(1)))
		e.paths64(" ts", clip.TranslatePaths64(p, op.i(0), op.i(1)))
	})
	reg("TranslateD", []string{"TranslatePathD", "TranslatePathsD"}, func(c *Ctx, op *Op, e *Enc, out *Outcome) {
		p := c.inD(op, 0)
		e.s("t=").pathD(clip.TranslatePathD(c.nthD(p), op.f(0), op.f(1)))
		e.pathsD(" ts", clip.TranslatePathsD(p, op.f(0), op.f(1)))
	})
	reg("Scale64", []string{"ScalePath64", "ScalePath64ToPathD", "ScalePaths64ToPathsD", "Path64ToPathD", "Paths64ToPathsD", "ScaleRect64"}, func(c *Ctx, op *Op, e *Enc, out *Outcome) {
		p := c.in64(op, 0)
		e.s("s=").path64(clip.ScalePath64(c.nth64(p), op.f(0)))
		e.s(" sd=").pathD(clip.ScalePath64ToPathD(c.nth64(p), op.f(0)))
		e.pathsD(" sds", clip.ScalePaths64ToPathsD(p, op.f(0)))
		e.s(" c=").pathD(clip.Path64ToPathD(c.nth64(p)))
		e.pathsD(" cs", clip.Paths64ToPathsD(p))
		e.rect64(" sr", clip.ScaleRect64(clip.GetBounds64(c.nth64(p)), op.f(0)))
	})
	reg("ScaleD", []string{"ScalePathD", "ScalePathDToPath64", "ScalePathsDToPaths64", "PathDToPath64", "PathsDToPaths64"}, func(c *Ctx, op *Op, e *Enc, out *Outcome) {
		p := c.inD(op, 0)
		e.s("s=").pathD(clip.ScalePathD(c.nthD(p), op.f(0)))
		e.s(" s64=").path64(clip.ScalePathDToPath64(c.nthD(p), op.f(0)))
		e.paths64(" s64s", clip.ScalePathsDToPaths64(p, op.f(0)))
		e.s(" c=").path64(clip.PathDToPath64(c.nthD(p)))
		e.paths64(" cs", clip.PathsDToPaths64(p))
	})
	reg("PointInPolygon", []string{"PointInPolygon", "Path2ContainsPath1"}, func(c *Ctx, op *Op, e *Enc, out *Outcome) {
		p := c.nth64(c.in64(op, 0))
		q := c.nth64(c.in64(op, 1))
		e.s("pip=").int(int64(clip.PointInPolygon(clip.Point64{X: op.i(0), Y: op.i(1)}, p)))
		for _, v := range q {
			e.s(",").int(int64(clip.PointInPolygon(v, p)))
		}
		e.boolean(" contains", clip.Path2ContainsPath1(q, p))
		e.boolean(" contains'", clip.Path2ContainsPath1(p, q))
	})
	reg("Ellipse64", []string{"Ellipse64"}, func(c *Ctx, op *Op, e *Enc, out *Outcome) {
		e.s("r=").path64(clip.Ellipse64(clip.Point64{X: op.i(0), Y: op.i(1)}, op.f(0), op.f(1), int(op.i(2))))
	})
	reg("EllipseD", []string{"EllipseD"}, func(c *Ctx, op *Op, e *Enc, out *Outcome) {
		e.s("r=").pathD(clip.EllipseD(clip.PointD{X: op.f(2), Y: op.f(3)}, op.f(0), op.f(1), int(op.i(0))))
	})
	reg("Scalars", []string{"PerpendicDistFromLineSqr64", "PerpendicDistFromLineSqrD", "CrossProduct", "PointsNearEqual", "MakePath64", "MakePathD", "IsOdd",
		"NewFloatPoint64", "Point64.ToPointD", "Point64.ToPointDScale", "Point64.Equals", "Point64.NEquals", "Point64.Add", "Point64.Sub", "Point64.ToPoint64",
		"PointD.ToPoint64", "PointD.ToPoint64Scale", "PointD.Scale", "PointD.Equals", "PointD.NEquals", "PointD.Negate",
		"Rect64.IsEmpty", "Rect64.IsInvalid", "Rect64.MidPoint", "Rect64.Contains", "Rect64.Intersects", "NewRect64Invalid",
		"RectD.IsEmpty", "RectD.IsInvalid", "RectD.MidPoint", "RectD.Contains", "RectD.Intersects", "RectD.AsPath", "NewRectDInvalid"}, func(c *Ctx, op *Op, e *Enc, out *Outcome) {
		a := clip.Point64{X: op.i(0), Y: op.i(1)}
		b := clip.Point64{X: op.i(2), Y: op.i(3)}
		d := clip.Point64{X: op.i(4), Y: op.i(5)}
		fa := clip.PointD{X: op.f(0), Y: op.f(1)}
		fb := clip.PointD{X: op.f(2), Y: op.f(3)}
		fd := clip.PointD{X: op.f(4), Y: op.f(5)}
		e.s("pd64=").flt(clip.PerpendicDistFromLineSqr64(a, b, d))
		e.s(" pdD=").flt(clip.PerpendicDistFromLineSqrD(fa, fb, fd))
		e.s(" cp=").flt(clip.CrossProduct(a, b, d))
		e.boolean(" near", clip.PointsNearEqual(fa, fb, op.f(4)))
		e.s(" mk=").path64(clip.MakePath64(op.I...))
		e.s(" mkd=").pathD(clip.MakePathD(op.F...))
		e.boolean(" odd", clip.IsOdd(int(op.i(0))))
		np := clip.NewFloatPoint64(op.f(0), op.f(1))
		e.s(" nfp=").path64(clip.Path64{np, a.ToPoint64(fb)})
		e.s(" tpd=").pathD(clip.PathD{a.ToPointD(), a.ToPointDScale(op.f(2))})
		e.boolean(" eq", a.Equals(b)).boolean("ne", a.NEquals(b))
		a2 := a
		a2.Add(b)
		a2.Sub(d)
		e.s(" addsub=").path64(clip.Path64{a2, fa.ToPoint64(), fa.ToPoint64Scale(op.f(3))})
		f2 := fa
		f2.Scale(op.f(5))
		f2.Negate()
		e.s(" fsc=").pathD(clip.PathD{f2}).boolean(" feq", fa.Equals(fb)).boolean("fne", fa.NEquals(fb))
		r1 := clip.NewRect64(op.i(0), op.i(1), op.i(2), op.i(3))
		r2 := clip.NewRect64(op.i(2), op.i(3), op.i(4), op.i(5))
		inv := clip.NewRect64Invalid(op.i(0)&1 == 0)
		e.boolean(" re", r1.IsEmpty()).boolean("ri", r1.IsInvalid()).boolean("rc", r1.Contains(r2)).boolean("rx", r1.Intersects(r2)).boolean("invi", inv.IsInvalid())
		e.s(" mp=").path64(clip.Path64{r1.MidPoint()})
		d1 := clip.NewRectD(op.f(0), op.f(1), op.f(2), op.f(3))
		d2 := clip.NewRectD(op.f(2), op.f(3), op.f(4), op.f(5))
		dinv := clip.NewRectDInvalid(op.i(0)&1 == 0)
		e.boolean(" de", d1.IsEmpty()).boolean("di", d1.IsInvalid()).boolean("dc", d1.Contains(d2)).boolean("dx", d1.Intersects(d2)).boolean("dinvi", dinv.IsInvalid())
		e.s(" dmp=").pathD(clip.PathD{d1.MidPoint()}).s(" dp=").pathD(d1.AsPath())
	})
	reg("Group", []string{"NewGroup", "Group.GetLowestPathInfo"}, func(c *Ctx, op *Op, e *Enc, out *Outcome) {
		g := clip.NewGroup(c.in64(op, 0), jt(op, 0), et(op, 1))
		i, neg := g.GetLowestPathInfo()
		e.s("low=").int(int64(i)).boolean(" neg", neg)
	})

	reg("Internals", []string{"NewVertex", "VertexPoolList.EnsureCapacity", "VertexPoolList.Add", "NewLocalMinima", "LocalMinima.Equals", "NewIntersectNode", "NewOutPt2", "NewHorzSegment", "NewHorzJoin", "SwapFrontBackSides"}, func(c *Ctx, op *Op, e *Enc, out *Outcome) {
		// exported building blocks of the sweep; nothing useful can be done
		// with them from outside, but they are API and must be as re-entrant
		// and repeatable as the rest
		pt := clip.Point64{X: op.i(0), Y: op.i(1)}
		v := clip.NewVertex(pt, clip.None, nil)
		var vpl clip.VertexPoolList
		vpl.EnsureCapacity(int(op.i(2)&15) + 1)
		v2 := vpl.Add(clip.Point64{X: op.i(2), Y: op.i(3)}, clip.LocalMax, v)
		lm1 := clip.NewLocalMinima(v, clip.Subject, false)
		lm2 := clip.NewLocalMinima(v2, clip.Clip, true)
		e.boolean("eq", lm1.Equals(lm1)).boolean("ne", lm1.Equals(lm2)).s("n=").int(int64(len(vpl))).s(" cap=").int(int64(cap(vpl)))
		in := clip.NewIntersectNode(pt, nil, nil)
		o2 := clip.NewOutPt2(pt)
		hs := clip.NewHorzSegment(&clip.OutPt{})
		hj := clip.NewHorzJoin(&clip.OutPt{}, nil)
		e.boolean(" made", in != nil && o2 != nil && hs != nil && hj != nil)
		func() {
			defer func() {
				if r := recover(); r != nil {
					e.s(" swap-panics")
				}
			}()
			clip.SwapFrontBackSides(&clip.OutRec{})
			e.s(" swap-ok")
		}()
	})

	regObjectOps()
}

// ---------------------------------------------------------------------------
// Object operations
// ---------------------------------------------------------------------------

func junk64(n int) clip.Paths64 {
	out := make(clip.Paths64, n, n+3)
	for i := range out {
		out[i] = clip.Path64{{X: 7777 + int64(i), Y: -7777}, {X: 7778, Y: -7770}, {X: 7700, Y: -7771 - int64(i)}}
	}
	return out
}
func junkD(n int) clip.PathsD {
	out := make(clip.PathsD, n, n+3)
	for i := range out {
		out[i] = clip.PathD{{X: 7777.5 + float64(i), Y: -7777}, {X: 7778, Y: -7770.25}, {X: 7700, Y: -7771 - float64(i)}}
	}
	return out
}

func scribble64(p clip.Paths64) {
	for _, path := range p {
		for j := range path {
			path[j] = clip.Point64{X: 424242 + int64(j)*3, Y: -313131 + int64(j%2)*1000}
		}
	}
}
func scribbleD(p clip.PathsD) {
	for _, path := range p {
		for j := range path {
			path[j] = clip.PointD{X: 4242.42 + float64(j)*3, Y: -3131.31 + float64(j%2)*10}
		}
	}
}

// dropKept forgets the kept results of an object (its solution variable is
// handed back to the library, or the harness itself is about to overwrite it);
// nil forgets everything.
func (c *Ctx) dropKept(o *Obj) {
	if o == nil {
		c.kept = c.kept[:0]
		return
	}
	n := 0
	for _, k := range c.kept {
		if k.obj != o {
			c.kept[n] = k
			n++
		}
	}
	c.kept = c.kept[:n]
}

// keep records the result paths of an operation for the result-stability
// monitor: memory the library handed to the caller must not change later.
func (c *Ctx) keep(op *Op, d *opDef, ob *Obj, out *Outcome) {
	if c.quiet || out.Panic != "" || out.Diverged {
		return
	}
	if c.private && (ob == nil || (ob.kind != "c64" && ob.kind != "cd" && ob.kind != "co")) {
		return // results of path functions may legitimately alias inputs the harness scribbles on
	}
	if len(c.kept) > 4000 {
		return
	}
	for _, p := range out.k64 {
		if len(p) > 0 {
			c.kept = append(c.kept, keptPath{p64: p, dig: digPath64(p), op: c.opIndex, kind: op.K, obj: ob})
		}
	}
	for _, p := range out.kD {
		if len(p) > 0 {
			c.kept = append(c.kept, keptPath{pd: p, dig: digPathD(p), op: c.opIndex, kind: op.K, obj: ob})
		}
	}
}

type addrRange struct{ lo, hi uintptr }

// inputRanges returns the memory (full capacity) of every caller-owned input
// this context can hand out.
func (c *Ctx) inputRanges() []addrRange {
	if c.ranges != nil {
		return c.ranges
	}
	c.ranges = []addrRange{}
	for _, in := range c.pool {
		if cap(in.p64) > 0 {
			lo := uintptr(unsafe.Pointer(unsafe.SliceData(in.p64)))
			c.ranges = append(c.ranges, addrRange{lo, lo + uintptr(cap(in.p64))*24})
		}
		if cap(in.pd) > 0 {
			lo := uintptr(unsafe.Pointer(unsafe.SliceData(in.pd)))
			c.ranges = append(c.ranges, addrRange{lo, lo + uintptr(cap(in.pd))*24})
		}
		for _, p := range in.p64[:cap(in.p64)] {
			if cap(p) > 0 {
				lo := uintptr(unsafe.Pointer(unsafe.SliceData(p)))
				c.ranges = append(c.ranges, addrRange{lo, lo + uintptr(cap(p))*16})
			}
		}
		for _, p := range in.pd[:cap(in.pd)] {
			if cap(p) > 0 {
				lo := uintptr(unsafe.Pointer(unsafe.SliceData(p)))
				c.ranges = append(c.ranges, addrRange{lo, lo + uintptr(cap(p))*16})
			}
		}
	}
	return c.ranges
}

func (c *Ctx) overlapsInput(lo uintptr, n int) bool {
	hi := lo + uintptr(n)*24 // generous: covers point arrays (16 bytes) and header arrays (24 bytes)
	for _, r := range c.inputRanges() {
		if lo < r.hi && r.lo < hi {
			return true
		}
	}
	return false
}

// scribbleResults is the caller doing what it may do with memory a call
// returned to it: overwrite the points, and use the spare capacity behind
// them. Results that share memory with a caller-owned input (several
// functions may return their argument) are left alone, and in runs with other
// tasks nothing another task could legitimately see is written.
func (c *Ctx) scribbleResults(out *Outcome) {
	if c.reuse != nil || c.private {
		return
	}
	n := 0
	// what the caller writes is its own data from now on: it is kept (as an
	// alias with its digest) and must still be there at the end of the task -
	// memory handed to one caller must not be handed out, or written, again
	c.scribbleSeq++
	tag := int64(c.task)*1000000 + int64(c.scribbleSeq)*1000
	if !vsimrt.RaceBuild {
		// one counter per process: a later run that is handed the same memory
		// again writes another pattern, and the process-wide ring below notices
		processScribbles++
		tag = processScribbles * 1000
	}
	// two phases: the paths of ONE result may share a backing array (carved
	// from one block, capacities overlapping); that memory all belongs to the
	// caller, so first everything is written, then the digests are taken
	var w64 []clip.Path64
	var wD []clip.PathD
	for _, p := range out.k64 {
		full := p[:cap(p)]
		if len(full) == 0 || c.overlapsInput(uintptr(unsafe.Pointer(unsafe.SliceData(full))), len(full)) {
			continue
		}
		for j := range full {
			full[j] = clip.Point64{X: 515151 + int64(j), Y: -626262 - tag}
		}
		w64 = append(w64, full)
		n++
	}
	for _, p := range out.kD {
		full := p[:cap(p)]
		if len(full) == 0 || c.overlapsInput(uintptr(unsafe.Pointer(unsafe.SliceData(full))), len(full)) {
			continue
		}
		for j := range full {
			full[j] = clip.PointD{X: 5151.51 + float64(j), Y: -6262.62 - float64(tag)}
		}
		wD = append(wD, full)
		n++
	}
	for _, full := range w64 {
		if len(c.kept) < 4000 {
			c.kept = append(c.kept, keptPath{p64: full, dig: digPath64(full), op: c.opIndex, kind: "memory the caller reused after " + catalogueName(c, out)})
		}
		rememberOwned(keptPath{p64: full, dig: digPath64(full), kind: catalogueName(c, out)})
	}
	for _, full := range wD {
		if len(c.kept) < 4000 {
			c.kept = append(c.kept, keptPath{pd: full, dig: digPathD(full), op: c.opIndex, kind: "memory the caller reused after " + catalogueName(c, out)})
		}
		rememberOwned(keptPath{pd: full, dig: digPathD(full), kind: catalogueName(c, out)})
	}
	// spare capacity behind a returned list: the caller appends to it
	for _, ps := range out.ko64 {
		full := ps[:cap(ps)]
		if c.overlapsInput(uintptr(unsafe.Pointer(unsafe.SliceData(full))), len(full)) {
			continue
		}
		for j := len(ps); j < len(full); j++ {
			full[j] = clip.Path64{{X: 717171, Y: 1}, {X: 717172, Y: 2}, {X: 717170, Y: 3}}
			n++
		}
	}
	for _, ps := range out.koD {
		full := ps[:cap(ps)]
		if c.overlapsInput(uintptr(unsafe.Pointer(unsafe.SliceData(full))), len(full)) {
			continue
		}
		for j := len(ps); j < len(full); j++ {
			full[j] = clip.PathD{{X: 7171.71, Y: 1}, {X: 7171.72, Y: 2}, {X: 7171.7, Y: 3}}
			n++
		}
	}
	if n > 0 {
		c.fire("scribble-result")
	}
}

func catalogueName(c *Ctx, out *Outcome) string { return c.curKind }

// Memory the harness (as caller) reused in earlier runs of this process. It
// is kept alive here, so the garbage collector cannot hand it out again: if
// its content changes, the library wrote to memory it had given away.
// Only in non-race builds, where tasks never run in parallel for real.
var processScribbles int64
var ownedRing []keptPath

func rememberOwned(k keptPath) {
	if vsimrt.RaceBuild {
		return
	}
	if len(ownedRing) >= 256 {
		copy(ownedRing, ownedRing[64:])
		ownedRing = ownedRing[:len(ownedRing)-64]
	}
	ownedRing = append(ownedRing, k)
}

func (c *Ctx) verifyOwned(class string) {
	if vsimrt.RaceBuild {
		return
	}
	n := 0
	for _, k := range ownedRing {
		var d uint64
		if k.pd != nil {
			d = digPathD(k.pd)
		} else {
			d = digPath64(k.p64)
		}
		if d != k.dig {
			c.viol = append(c.viol, Violation{Class: class, Task: c.task, OpIndex: c.opIndex, OpKind: k.kind, Symptom: "returned-memory-reused",
				Detail: "memory that an earlier call (" + k.kind + ") had returned to its caller, and that the caller still owns, was written again by the library: it was handed out twice or kept"})
			continue // drop it: report once
		}
		ownedRing[n] = k
		n++
	}
	ownedRing = ownedRing[:n]
}

func (c *Ctx) verifyKept(class string) {
	for _, k := range c.kept {
		var d uint64
		if k.pd != nil {
			d = digPathD(k.pd)
		} else {
			d = digPath64(k.p64)
		}
		if d != k.dig {
			c.viol = append(c.viol, Violation{Class: class, Task: c.task, OpIndex: k.op, OpKind: k.kind, Symptom: "earlier-result-modified",
				Detail: "a path returned to the caller by operation " + strconv.Itoa(k.op) + " (" + k.kind + ") was modified after the call had returned"})
			break
		}
	}
	c.kept = c.kept[:0]
}

// prepareSol applies the solution-argument perturbations of an execute.
func (c *Ctx) prepareSol(o *Obj, op *Op) {
	fresh := false
	for _, p := range op.P {
		if p == "fresh-sol" || p == "junk-sol" || p == "empty-sol" {
			fresh = true
		}
		if p == "alias-in" || p == "other-sol" {
			c.dropKept(nil)
		}
	}
	if !fresh {
		// the same variable goes back to the library: it may reuse its storage
		c.dropKept(o)
	}
	for _, p := range op.P {
		switch p {
		case "fresh-sol":
			o.sol64, o.open64, o.solD, o.openD, o.treeOpen = nil, nil, nil, nil, nil
			o.tree64, o.treeD = nil, nil
			c.fire("fresh-solution")
		case "empty-sol":
			o.sol64, o.open64, o.solD, o.openD, o.treeOpen = clip.Paths64{}, clip.Paths64{}, clip.PathsD{}, clip.PathsD{}, clip.PathsD{}
		case "junk-sol":
			o.sol64, o.open64 = junk64(3), junk64(2)
			o.solD, o.openD, o.treeOpen = junkD(3), junkD(2), junkD(2)
			o.tree64, o.treeD = clip.NewPolyTree64(), clip.NewPolyTreeD()
			for _, p := range junk64(2) {
				o.tree64.AddChild(p).AddChild(p)
				o.treeD.AddChild(p)
			}
			o.treeD.SetScale(3)
			c.fire("dirty-solution")
		case "alias-in":
			if len(o.priv64) > 0 && (o.kind == "c64" || o.kind == "co") {
				o.sol64 = o.priv64[len(o.priv64)-1]
				c.fire("solution-alias")
			}
			if len(o.privD) > 0 && o.kind == "cd" {
				o.solD = o.privD[len(o.privD)-1]
				c.fire("solution-alias")
			}
		case "other-sol":
			for _, q := range c.objs {
				if q != nil && q != o && q.tree64 != nil && o.kind == "c64" {
					o.tree64 = q.tree64 // a tree that holds the nodes of another engine's execution
				}
				if q != nil && q != o && q.treeD != nil && o.kind == "cd" {
					o.treeD = q.treeD
				}
				if q != nil && q != o {
					if len(q.sol64) > 0 && (o.kind == "c64" || o.kind == "co") {
						o.sol64 = q.sol64
						c.fire("solution-alias")
						break
					}
					if len(q.solD) > 0 && o.kind == "cd" {
						o.solD = q.solD
						c.fire("solution-alias")
						break
					}
				}
			}
		}
	}
	if len(o.sol64) > 0 || len(o.solD) > 0 || len(o.open64) > 0 || len(o.openD) > 0 {
		c.probe("execute into non-empty solution")
	}
}

// afterExec applies the scribble perturbations once the outcome is recorded.
func (c *Ctx) afterExec(o *Obj, op *Op) {
	if !c.private {
		return // never write to memory another task may see
	}
	for _, p := range op.P {
		switch p {
		case "scribble-out":
			c.dropKept(nil)
			scribble64(o.sol64)
			scribble64(o.open64)
			scribbleD(o.solD)
			scribbleD(o.openD)
			scribbleD(o.treeOpen)
			o.scribbledOut = true
			c.fire("scribble-output")
		case "scribble-in":
			c.dropKept(nil)
			for _, p := range o.priv64 {
				scribble64(p)
			}
			for _, p := range o.privD {
				scribbleD(p)
			}
			o.scribbledIn = true
			c.fire("scribble-input")
		}
	}
}

func (c *Ctx) scaleInFn(op *Op) func(paths clip.PathsD, scale float64) clip.Paths64 {
	return func(paths clip.PathsD, scale float64) clip.Paths64 {
		c.callbackHook(op)
		return clip.ScalePathsDToPaths64(paths, scale)
	}
}

func (c *Ctx) scaleOutFn(op *Op) func(path clip.Path64, scale float64) clip.PathD {
	return func(path clip.Path64, scale float64) clip.PathD {
		c.callbackHook(op)
		return clip.ScalePath64ToPathD(path, scale)
	}
}

// callbackHook is what harness-supplied callbacks do besides computing their
// (pure) result: a shared-kind yield site, and optionally a re-entrant,
// independent library call.
func (c *Ctx) callbackHook(op *Op) {
	vsimrt.YS(vsimrt.SiteCallbackBase + 1)
	if !c.quiet {
		c.st.Fired["callback-entered"]++
	}
	if op.has("reentrant") && c.inCb == 0 {
		c.inCb++
		a := clip.Area64(clip.Path64{{X: 0, Y: 0}, {X: 1 << 31, Y: 0}, {X: 1 << 31, Y: 1 << 31}})
		r := clip.BooleanOpPaths64(clip.Union, clip.Paths64{{{X: 0, Y: 0}, {X: 10, Y: 0}, {X: 10, Y: 10}, {X: 0, Y: 10}}}, clip.Paths64{{{X: 5, Y: 5}, {X: 15, Y: 5}, {X: 15, Y: 15}, {X: 5, Y: 15}}}, clip.NonZero)
		if a != float64(1<<61) || len(r) != 1 || len(r[0]) != 8 {
			c.viol = append(c.viol, Violation{Class: "reentrant", Task: c.task, OpIndex: c.opIndex, OpKind: op.K, Symptom: "reentrant-call-wrong",
				Detail: fmt.Sprintf("independent call made from inside a callback returned area=%v union=%v", a, r)})
		}
		// another engine of the same task, if there is one
		for _, q := range c.peers {
			if q != nil && q.kind == "c64" && q.e64 != nil && !q.dead {
				func() {
					// a panic (or the step budget) that unwinds through the
					// peer's Execute leaves it half-way: not judged afterwards
					defer func() {
						if r := recover(); r != nil {
							q.dead = true
							panic(r)
						}
					}()
					var s clip.Paths64
					q.e64.Execute(clip.Union, clip.NonZero, &s)
					q.execs++ // an execute like any other: later adds are adds after an execute
				}()
				break
			}
		}
		c.fire("reentrant-call")
		c.inCb--
	}
}

type cbState struct{ calls int }

func (c *Ctx) deltaCallback(kind int64, d float64, op *Op, st *cbState) *clip.DeltaCallbackFunc {
	if kind == 0 {
		return nil
	}
	var f clip.DeltaCallbackFunc = func(path *clip.Path64, normals *clip.PathD, curr, prev uint8) float64 {
		st.calls++
		if st.calls%3 == 1 {
			c.callbackHook(op)
		}
		switch kind {
		case 1:
			return d
		case 2:
			return d * float64(1+int(curr)%3)
		default:
			if path != nil && int(curr) < len(*path) {
				return d + float64((*path)[curr].X%5)
			}
			return d
		}
	}
	return &f
}

func skip(e *Enc) { e.s("skip") }

func regObjectOps() {
	o := func(d *opDef, kind string, exec bool) { d.obj, d.exec = kind, exec }

	// ---- clipper64 ----
	o(reg("C64.New", []string{"NewClipper64"}, func(c *Ctx, op *Op, e *Enc, out *Outcome) {
		c.setObj(op.O, &Obj{kind: "c64", e64: clip.NewClipper64()})
		e.s("new")
	}), "c64", false)
	addRec64 := func(c *Ctx, ob *Obj, p clip.Paths64, op *Op, via string) {
		ob.adds = append(ob.adds, addRec{p64: copy64(p), ptype: ptype(op, 0), open: op.i(1) != 0, via: via})
		if c.private {
			ob.priv64 = append(ob.priv64, p)
		}
		if ob.execs > 0 {
			ob.addAfterExec = true
			c.fire("add-after-exec")
		}
	}
	o(reg("C64.AddPaths", []string{"clipper64.AddPaths"}, func(c *Ctx, op *Op, e *Enc, out *Outcome) {
		ob := c.obj(op.O)
		if ob == nil || ob.kind != "c64" {
			skip(e)
			return
		}
		p := c.in64(op, 0)
		addRec64(c, ob, p, op, "AddPaths")
		ob.e64.AddPaths(p, ptype(op, 0), op.i(1) != 0)
		e.s("added")
	}), "c64", false)
	o(reg("C64.AddPath", []string{"clipperBase.AddPath"}, func(c *Ctx, op *Op, e *Enc, out *Outcome) {
		ob := c.obj(op.O)
		if ob == nil || ob.kind != "c64" {
			skip(e)
			return
		}
		p := c.in64(op, 0)
		if len(p) > 1 {
			p = p[:1]
		}
		addRec64(c, ob, p, op, "AddPath")
		ob.e64.AddPath(c.nth64(p), ptype(op, 0), op.i(1) != 0)
		e.s("added")
	}), "c64", false)
	exec64 := func(form string) func(c *Ctx, op *Op, e *Enc, out *Outcome) {
		return func(c *Ctx, op *Op, e *Enc, out *Outcome) {
			ob := c.obj(op.O)
			if ob == nil || ob.kind != "c64" {
				skip(e)
				return
			}
			c.prepareSol(ob, op)
			c.peers = c.objs
			run64(ob.e64, ob, form, ct(op, 0), fr(op, 1), e, out)
		}
	}
	o(reg("C64.Execute", []string{"clipper64.Execute"}, exec64("Execute")), "c64", true)
	o(reg("C64.ExecuteOC", []string{"clipper64.ExecuteOC"}, exec64("ExecuteOC")), "c64", true)
	o(reg("C64.ExecutePolyTree", []string{"clipper64.ExecutePolyTree64"}, exec64("Tree")), "c64", true)

	// ---- clipperD ----
	o(reg("CD.New", []string{"NewClipperD"}, func(c *Ctx, op *Op, e *Enc, out *Outcome) {
		c.setObj(op.O, &Obj{kind: "cd", ed: clip.NewClipperD(int(op.i(0))), prec: int(op.i(0))})
		e.s("new")
	}), "cd", false)
	addRecD := func(c *Ctx, ob *Obj, p clip.PathsD, op *Op, via string) {
		ob.adds = append(ob.adds, addRec{isD: true, pd: copyD(p), ptype: ptype(op, 0), open: op.i(1) != 0, via: via})
		if c.private {
			ob.privD = append(ob.privD, p)
		}
		if ob.execs > 0 {
			ob.addAfterExec = true
			c.fire("add-after-exec")
		}
	}
	o(reg("CD.AddPaths", []string{"clipperD.AddPaths"}, func(c *Ctx, op *Op, e *Enc, out *Outcome) {
		ob := c.obj(op.O)
		if ob == nil || ob.kind != "cd" {
			skip(e)
			return
		}
		p := c.inD(op, 0)
		addRecD(c, ob, p, op, "AddPaths")
		ob.ed.AddPaths(p, ptype(op, 0), op.i(1) != 0)
		e.s("added")
	}), "cd", false)
	o(reg("CD.AddPathsScaleFn", []string{"clipperD.AddPathsWithScaleFunc"}, func(c *Ctx, op *Op, e *Enc, out *Outcome) {
		ob := c.obj(op.O)
		if ob == nil || ob.kind != "cd" {
			skip(e)
			return
		}
		p := c.inD(op, 0)
		addRecD(c, ob, p, op, "ScaleFn")
		c.peers = c.objs
		ob.ed.AddPathsWithScaleFunc(p, ptype(op, 0), op.i(1) != 0, c.scaleInFn(op))
		e.s("added")
	}), "cd", false)
	o(reg("CD.AddPath64", []string{"clipperBase.AddPath"}, func(c *Ctx, op *Op, e *Enc, out *Outcome) {
		ob := c.obj(op.O)
		if ob == nil || ob.kind != "cd" {
			skip(e)
			return
		}
		p := c.in64(op, 0)
		if len(p) > 1 {
			p = p[:1]
		}
		ob.adds = append(ob.adds, addRec{p64: copy64(p), ptype: ptype(op, 0), open: op.i(1) != 0, via: "AddPath64"})
		if c.private {
			ob.priv64 = append(ob.priv64, p)
		}
		if ob.execs > 0 {
			ob.addAfterExec = true
			c.fire("add-after-exec")
		}
		ob.ed.AddPath(c.nth64(p), ptype(op, 0), op.i(1) != 0)
		e.s("added")
	}), "cd", false)
	execD := func(form string) func(c *Ctx, op *Op, e *Enc, out *Outcome) {
		return func(c *Ctx, op *Op, e *Enc, out *Outcome) {
			ob := c.obj(op.O)
			if ob == nil || ob.kind != "cd" {
				skip(e)
				return
			}
			c.prepareSol(ob, op)
			c.peers = c.objs
			runD(c, ob.ed, ob, form, ct(op, 0), fr(op, 1), op, e, out)
		}
	}
	o(reg("CD.Execute", []string{"clipperD.Execute"}, execD("Execute")), "cd", true)
	o(reg("CD.ExecuteOC", []string{"clipperD.ExecuteOC"}, execD("ExecuteOC")), "cd", true)
	o(reg("CD.ExecuteScaleFn", []string{"clipperD.ExecuteWithScaleFunc"}, execD("ScaleFn")), "cd", true)
	o(reg("CD.ExecutePolyTree", []string{"clipperD.ExecutePolyTreeD"}, execD("Tree")), "cd", true)

	// ---- ClipperOffset ----
	o(reg("CO.New", []string{"NewClipperOffset"}, func(c *Ctx, op *Op, e *Enc, out *Outcome) {
		ob := &Obj{kind: "co", newF: [2]float64{op.f(0), op.f(1)}, newB: [2]bool{op.i(0) != 0, op.i(1) != 0}, cbState: &cbState{}}
		ob.co = clip.NewClipperOffset(op.f(0), op.f(1), op.i(0) != 0, op.i(1) != 0)
		c.setObj(op.O, ob)
		e.s("new")
	}), "co", false)
	o(reg("CO.AddPaths", []string{"ClipperOffset.AddPaths"}, func(c *Ctx, op *Op, e *Enc, out *Outcome) {
		ob := c.obj(op.O)
		if ob == nil || ob.kind != "co" {
			skip(e)
			return
		}
		p := c.in64(op, 0)
		ob.adds = append(ob.adds, addRec{p64: copy64(p), jt: jt(op, 0), et: et(op, 1)})
		if c.private {
			ob.priv64 = append(ob.priv64, p)
		}
		if ob.execs > 0 {
			ob.addAfterExec = true
			c.fire("add-after-exec")
		}
		ob.co.AddPaths(p, jt(op, 0), et(op, 1))
		e.s("added cap=").int(int64(ob.co.CalcSolutionCapacity())).boolean(" rev", ob.co.CheckPathsReversed())
	}), "co", false)
	o(reg("CO.SetCallback", []string{"ClipperOffset.SetDeltaCallback"}, func(c *Ctx, op *Op, e *Enc, out *Outcome) {
		ob := c.obj(op.O)
		if ob == nil || ob.kind != "co" {
			skip(e)
			return
		}
		ob.cbKind, ob.cbD = op.i(0), op.f(0)
		ob.co.SetDeltaCallback(c.deltaCallback(ob.cbKind, ob.cbD, op, ob.cbState))
		c.fire("callback-toggle")
		e.s("set")
	}), "co", false)
	o(reg("CO.SetField", []string{"ClipperOffset(fields)"}, func(c *Ctx, op *Op, e *Enc, out *Outcome) {
		ob := c.obj(op.O)
		if ob == nil || ob.kind != "co" {
			skip(e)
			return
		}
		switch op.i(0) {
		case 0:
			ob.co.ArcTolerance = op.f(0)
		case 1:
			ob.co.MiterLimit = op.f(0)
		case 2:
			ob.co.PreserveCollinear = op.i(1) != 0
		case 3:
			ob.co.ReverseSolution = op.i(1) != 0
		case 4:
			ob.co.MergeGroups = op.i(1) != 0
		}
		c.fire("field-change")
		e.s("set")
	}), "co", false)
	o(reg("CO.Execute64", []string{"ClipperOffset.Execute64", "ClipperOffset.CheckPathsReversed", "ClipperOffset.CalcSolutionCapacity"}, func(c *Ctx, op *Op, e *Enc, out *Outcome) {
		ob := c.obj(op.O)
		if ob == nil || ob.kind != "co" {
			skip(e)
			return
		}
		c.prepareSol(ob, op)
		c.peers = c.objs
		if math.Abs(op.f(0)) < 0.5 {
			c.probe("|delta|<0.5 execute")
		}
		runCO(ob.co, ob, op.f(0), e, out)
	}), "co", true)

	// ---- RectClip64 / RectClipLines64 ----
	o(reg("RC.New", []string{"NewRectClip64"}, func(c *Ctx, op *Op, e *Enc, out *Outcome) {
		ob := &Obj{kind: "rc", rect: [4]int64{op.i(0), op.i(1), op.i(2), op.i(3)}}
		ob.rc = clip.NewRectClip64(clip.NewRect64(op.i(0), op.i(1), op.i(2), op.i(3)))
		c.setObj(op.O, ob)
		e.s("new")
	}), "rc", false)
	o(reg("RCL.New", []string{"NewRectClipLines64"}, func(c *Ctx, op *Op, e *Enc, out *Outcome) {
		ob := &Obj{kind: "rcl", rect: [4]int64{op.i(0), op.i(1), op.i(2), op.i(3)}}
		ob.rcl = clip.NewRectClipLines64(clip.NewRect64(op.i(0), op.i(1), op.i(2), op.i(3)))
		c.setObj(op.O, ob)
		e.s("new")
	}), "rcl", false)
	o(reg("RC.Execute", []string{"RectClip64.Execute"}, func(c *Ctx, op *Op, e *Enc, out *Outcome) {
		ob := c.obj(op.O)
		if ob == nil || (ob.kind != "rc" && ob.kind != "rcl") {
			skip(e)
			return
		}
		p := c.in64(op, 0)
		ob.adds = []addRec{{p64: copy64(p)}}
		c.dropKept(ob) // the object is used again: what it returned before is no longer watched
		var r clip.Paths64
		if ob.kind == "rc" {
			r = ob.rc.Execute(p)
		} else {
			r = ob.rcl.Execute(p)
		}
		ob.sol64 = r
		e.paths64("r", r)
		setG64(out, true, r, nil)
	}), "rc", true)
}

func run64(en eng64, ob *Obj, form string, ctv clip.ClipType, frv clip.FillRule, e *Enc, out *Outcome) {
	switch form {
	case "Execute":
		ok := en.Execute(ctv, frv, &ob.sol64)
		e.boolean("ok", ok).paths64("closed", ob.sol64)
		setG64(out, ok, ob.sol64, nil)
	case "ExecuteOC":
		ok := en.ExecuteOC(ctv, frv, &ob.sol64, &ob.open64)
		e.boolean("ok", ok).paths64("closed", ob.sol64).paths64("open", ob.open64)
		setG64(out, ok, ob.sol64, ob.open64)
	default:
		if ob.tree64 == nil {
			ob.tree64 = clip.NewPolyTree64()
		}
		ok := en.ExecutePolyTree64(ctv, frv, ob.tree64, &ob.treeOpen)
		e.boolean("ok", ok).s("tree=").polyBase(ob.tree64.PolyPathBase, 0).pathsD(" open", ob.treeOpen)
		out.ok = ok
	}
}

func runD(c *Ctx, en engD, ob *Obj, form string, ctv clip.ClipType, frv clip.FillRule, op *Op, e *Enc, out *Outcome) {
	scale := math.Pow(10, float64(ob.prec))
	if ob.prec == 0 {
		scale = 100
	}
	switch form {
	case "Execute":
		ok := en.Execute(ctv, frv, &ob.solD)
		e.boolean("ok", ok).pathsD("closed", ob.solD)
		setGD(out, ok, ob.solD, nil, scale)
	case "ExecuteOC":
		ok := en.ExecuteOC(ctv, frv, &ob.solD, &ob.openD)
		e.boolean("ok", ok).pathsD("closed", ob.solD).pathsD("open", ob.openD)
		setGD(out, ok, ob.solD, ob.openD, scale)
	case "ScaleFn":
		ok := en.ExecuteWithScaleFunc(ctv, frv, &ob.solD, &ob.openD, c.scaleOutFn(op))
		e.boolean("ok", ok).pathsD("closed", ob.solD).pathsD("open", ob.openD)
		setGD(out, ok, ob.solD, ob.openD, scale)
	default:
		if ob.treeD == nil {
			ob.treeD = clip.NewPolyTreeD()
		}
		ok := en.ExecutePolyTreeD(ctv, frv, ob.treeD, &ob.treeOpen)
		e.boolean("ok", ok).s("tree=").polyBase(ob.treeD.PolyPathBase, 0).pathsD(" open", ob.treeOpen)
		out.ok = ok
	}
}

func runCO(co *clip.ClipperOffset, ob *Obj, delta float64, e *Enc, out *Outcome) {
	co.Execute64(delta, &ob.sol64)
	e.paths64("r", ob.sol64)
	setG64(out, true, ob.sol64, nil)
}

// ---------------------------------------------------------------------------
// Running one operation
// ---------------------------------------------------------------------------

// runOp executes op in context c and returns its outcome. The geometry fields
// of the outcome alias caller-side variables; callers that keep them must
// deep-copy (freeze).
func (c *Ctx) runOp(op *Op) Outcome {
	d := catalogue[op.K]
	if d == nil {
		return Outcome{Enc: "unknown-op"}
	}
	c.curKind = op.K
	c.curN = op.N
	if c.curN < 0 {
		c.curN = 0
	}
	var ob *Obj
	if d.obj != "" {
		ob = c.obj(op.O)
	}
	if ob != nil && ob.dead && !strings.HasSuffix(op.K, ".New") {
		// an earlier operation on this object panicked or was cut off by the
		// step budget: its state is undefined, nothing about it is judged
		c.watches = c.watches[:0]
		return Outcome{Enc: "not judged: an earlier operation on this object did not run to completion"}
	}
	out := protect(c.budget, func(e *Enc, out *Outcome) {
		d.run(c, op, e, out)
	})
	c.checkWatches(op)
	if !c.quiet {
		c.st.Ops++
		c.st.OpsByKind[op.K]++
		c.st.Steps += out.Steps
		if out.Diverged {
			c.st.Diverged++
		}
		if out.Panic != "" {
			c.st.Panics++
		}
	}
	if ob != nil && (out.Panic != "" || out.Diverged) {
		ob.dead = true // state after an escaped panic is not judged (tier NONE)
	}
	return out
}

func (o *Outcome) freeze() {
	o.c64, o.o64, o.cD, o.oD = copy64(o.c64), copy64(o.o64), copyD(o.cD), copyD(o.oD)
}

func sortedKeysI(m map[string]int64) []string {
	k := make([]string, 0, len(m))
	for s := range m {
		k = append(k, s)
	}
	sort.Strings(k)
	return k
}

func first64(p clip.Paths64) clip.Path64 {
	if len(p) == 0 {
		return nil
	}
	return p[0]
}
