package main

import (
	"fmt"
	"math"
	"strings"

	clip "github.com/bolom009/go-clipper2"
	"vsimrt"
)

// ---------------------------------------------------------------------------
// C12: the reference model is a fresh object that has no history.
// ---------------------------------------------------------------------------

const (
	refSame    = 0 // the same add calls in the same order
	refMerged  = 1 // adjacent add calls of one kind merged into one call
	refOneCall = 2 // all paths of a kind in one call, kinds in canonical order
)

func kindKey(a addRec) string {
	return fmt.Sprintf("%v/%d/%v/%v", a.isD, a.ptype, a.open, a.via == "AddPath64")
}

func mergeAdds(adds []addRec, mode int) []addRec {
	switch mode {
	case refMerged:
		var out []addRec
		for _, a := range adds {
			if n := len(out); n > 0 && kindKey(out[n-1]) == kindKey(a) {
				m := out[n-1]
				if a.isD {
					m.pd = append(append(clip.PathsD{}, m.pd...), a.pd...)
				} else {
					m.p64 = append(append(clip.Paths64{}, m.p64...), a.p64...)
				}
				m.via = "AddPaths"
				if a.via == "AddPath64" {
					m.via = "AddPath64"
				}
				out[n-1] = m
				continue
			}
			out = append(out, a)
		}
		return out
	case refOneCall:
		var order []string
		groups := map[string]*addRec{}
		for _, a := range adds {
			k := kindKey(a)
			gp, ok := groups[k]
			if !ok {
				cp := a
				cp.p64 = append(clip.Paths64{}, a.p64...)
				cp.pd = append(clip.PathsD{}, a.pd...)
				if cp.via != "AddPath64" {
					cp.via = "AddPaths"
				}
				groups[k] = &cp
				order = append(order, k)
				continue
			}
			gp.p64 = append(gp.p64, a.p64...)
			gp.pd = append(gp.pd, a.pd...)
		}
		// canonical order of the kinds: closed subjects, open subjects, clips
		rank := func(a *addRec) int {
			r := 0
			if a.ptype != clip.Subject {
				r = 4
			}
			if a.open {
				r += 2
			}
			if a.via == "AddPath64" {
				r++
			}
			return r
		}
		var out []addRec
		for r := 0; r < 8; r++ {
			for _, k := range order {
				if rank(groups[k]) == r {
					out = append(out, *groups[k])
				}
			}
		}
		return out
	}
	return adds
}

// reference executes the same execute on a fresh object built from the
// shadow log. It runs inside the same task, under its own step budget.
func (c *Ctx) reference(ob *Obj, op *Op, mode int) Outcome {
	quiet := c.quiet
	c.quiet = true
	defer func() { c.quiet = quiet }()
	d := catalogue[op.K]
	return protect(c.budget, func(e *Enc, out *Outcome) {
		fresh := &Obj{kind: ob.kind, prec: ob.prec}
		switch ob.kind {
		case "c64":
			en := clip.NewClipper64()
			for _, a := range mergeAdds(ob.adds, mode) {
				if a.via == "AddPath" {
					en.AddPath(first64(copy64(a.p64)), a.ptype, a.open)
				} else {
					en.AddPaths(copy64(a.p64), a.ptype, a.open)
				}
			}
			form := strings.TrimPrefix(op.K, "C64.")
			if form == "ExecutePolyTree" {
				form = "Tree"
			}
			run64(en, fresh, form, ct(op, 0), fr(op, 1), e, out)
		case "cd":
			en := clip.NewClipperD(ob.prec)
			for _, a := range mergeAdds(ob.adds, mode) {
				switch {
				case a.via == "AddPath64":
					for _, p := range a.p64 {
						en.AddPath(append(clip.Path64{}, p...), a.ptype, a.open)
					}
				default:
					en.AddPaths(copyD(a.pd), a.ptype, a.open)
				}
			}
			form := strings.TrimPrefix(op.K, "CD.")
			switch form {
			case "ExecutePolyTree":
				form = "Tree"
			case "ExecuteScaleFn":
				form = "ScaleFn"
			}
			plain := *op
			plain.P = nil
			runD(c, en, fresh, form, ct(op, 0), fr(op, 1), &plain, e, out)
		case "co":
			co := clip.NewClipperOffset(ob.newF[0], ob.newF[1], ob.newB[0], ob.newB[1])
			co.ArcTolerance = ob.co.ArcTolerance
			co.MiterLimit = ob.co.MiterLimit
			co.PreserveCollinear = ob.co.PreserveCollinear
			co.ReverseSolution = ob.co.ReverseSolution
			co.MergeGroups = ob.co.MergeGroups
			plain := *op
			plain.P = nil
			co.SetDeltaCallback(c.deltaCallback(ob.cbKind, ob.cbD, &plain, &cbState{}))
			for _, a := range ob.adds {
				co.AddPaths(copy64(a.p64), a.jt, a.et)
			}
			runCO(co, fresh, op.f(0), e, out)
		case "rc", "rcl":
			var r clip.Paths64
			var in clip.Paths64
			if len(ob.adds) > 0 {
				in = copy64(ob.adds[0].p64)
			}
			rect := clip.NewRect64(ob.rect[0], ob.rect[1], ob.rect[2], ob.rect[3])
			if ob.kind == "rc" {
				r = clip.NewRectClip64(rect).Execute(in)
			} else {
				r = clip.NewRectClipLines64(rect).Execute(in)
			}
			e.paths64("r", r)
			setG64(out, true, r, nil)
		}
		_ = d
	})
}

// inputsOf returns the closed and open input paths of an engine in the
// engine's integer coordinates.
func inputsOf(ob *Obj) (closed, open clip.Paths64) {
	scale := 1.0
	if ob.kind == "cd" {
		scale = math.Pow(10, float64(ob.prec))
		if ob.prec == 0 {
			scale = 100
		}
	}
	for _, a := range ob.adds {
		var p clip.Paths64
		if a.isD {
			// exactly what the engine was given: the library's own conversion
			p = clip.ScalePathsDToPaths64(a.pd, scale)
		} else {
			p = a.p64
		}
		if a.open {
			open = append(open, p...)
		} else {
			closed = append(closed, p...)
		}
	}
	return
}

// distinctY reports whether all vertices of all input paths of the engine
// (consecutive duplicates aside) have pairwise distinct Y. Then no two local
// minima tie, the sweep processes them in one possible order whatever the
// order of the AddPaths calls was, and an engine with a history must be
// bit-identical to a fresh one.
func distinctY(ob *Obj) bool {
	inC, inO := inputsOf(ob)
	seen := map[int64]bool{}
	for _, ps := range []clip.Paths64{inC, inO} {
		for _, p := range ps {
			for i, pt := range p {
				if i > 0 && pt == p[i-1] {
					continue
				}
				if i == len(p)-1 && len(p) > 1 && pt == p[0] {
					continue
				}
				if seen[pt.Y] {
					return false
				}
				seen[pt.Y] = true
			}
		}
	}
	return true
}

// symptomOf classifies how an observed outcome differs from the expected one.
func symptomOf(obs, exp *Outcome) string {
	switch {
	case obs.Diverged != exp.Diverged:
		return "divergence-differs"
	case obs.Panic != exp.Panic:
		return "panic-differs"
	}
	if obs.hasG && exp.hasG {
		if obs.ok != exp.ok {
			same := false
			if obs.isD {
				same = encD(obs.cD) == encD(exp.cD) && encD(obs.oD) == encD(exp.oD)
			} else {
				same = enc64(obs.c64) == enc64(exp.c64) && enc64(obs.o64) == enc64(exp.o64)
			}
			if same {
				return "ok-flag"
			}
			return "ok-flag+paths"
		}
		// stale prefix?
		if obs.isD {
			if n, m := len(obs.cD), len(exp.cD); n > m && encD(obs.cD[n-m:]) == encD(exp.cD) {
				return "appended"
			}
			if n, m := len(obs.oD), len(exp.oD); n > m && encD(obs.oD[n-m:]) == encD(exp.oD) {
				return "appended-open"
			}
			if sameMultisetD(obs.cD, exp.cD) && sameMultisetD(obs.oD, exp.oD) {
				return "path-order"
			}
		} else {
			if n, m := len(obs.c64), len(exp.c64); n > m && enc64(obs.c64[n-m:]) == enc64(exp.c64) {
				return "appended"
			}
			if n, m := len(obs.o64), len(exp.o64); n > m && enc64(obs.o64[n-m:]) == enc64(exp.o64) {
				return "appended-open"
			}
			if sameMultiset64(obs.c64, exp.c64) && sameMultiset64(obs.o64, exp.o64) {
				return "path-order"
			}
		}
		return "paths-differ"
	}
	if obs.ok != exp.ok {
		return "ok-flag"
	}
	return "result-differs"
}

func enc64(p clip.Paths64) string { var e Enc; e.paths64("", p); return e.String() }
func encD(p clip.PathsD) string   { var e Enc; e.pathsD("", p); return e.String() }

func sameMultiset64(a, b clip.Paths64) bool {
	if len(a) != len(b) {
		return false
	}
	cnt := map[string]int{}
	for _, p := range a {
		var e Enc
		cnt[e.path64(p).String()]++
	}
	for _, p := range b {
		var e Enc
		cnt[e.path64(p).String()]--
	}
	for _, v := range cnt {
		if v != 0 {
			return false
		}
	}
	return true
}

func sameMultisetD(a, b clip.PathsD) bool {
	if len(a) != len(b) {
		return false
	}
	cnt := map[string]int{}
	for _, p := range a {
		var e Enc
		cnt[e.pathD(p).String()]++
	}
	for _, p := range b {
		var e Enc
		cnt[e.pathD(p).String()]--
	}
	for _, v := range cnt {
		if v != 0 {
			return false
		}
	}
	return true
}

func pertOf(op *Op, ob *Obj) string {
	var p []string
	for _, x := range op.P {
		switch x {
		case "junk-sol", "alias-in", "other-sol", "fresh-sol", "empty-sol":
			p = append(p, x)
		}
	}
	if ob.hadTree && !strings.HasSuffix(op.K, "PolyTree") {
		p = append(p, "after-tree")
	}
	if ob.scribbledOut {
		p = append(p, "after-scribble-out")
	}
	if ob.scribbledIn {
		p = append(p, "after-scribble-in")
	}
	if ob.addAfterExec {
		p = append(p, "add-after-exec")
	}
	if ob.execs > 0 {
		p = append(p, "after-exec")
	}
	return strings.Join(p, "+")
}

// judgeC12 compares the outcome of an execute with the reference model.
func (c *Ctx) judgeC12(ob *Obj, op *Op, obs *Outcome) {
	if ob == nil || ob.dead || !c.judge {
		return
	}
	report := func(tier string, ref *Outcome, sym, detail string) {
		c.viol = append(c.viol, Violation{Class: "history", Task: c.task, OpIndex: c.opIndex, OpKind: op.K,
			Symptom: sym, Pert: pertOf(op, ob), Detail: tier + ": " + detail, Expected: clipStr(ref.key()), Observed: clipStr(obs.key())})
	}
	field := func(tier string, ref *Outcome) {
		c.st.Judged[tier]++
		if obs.Panic != ref.Panic || obs.Diverged != ref.Diverged {
			report(tier, ref, symptomOf(obs, ref), "panic/divergence differs from the fresh engine")
			return
		}
		if obs.ok != ref.ok {
			report(tier, ref, "ok-flag", "boolean result differs from the fresh engine")
			return
		}
		if !obs.hasG || !ref.hasG {
			return // tree form: region comparison not implemented for trees
		}
		inC, inO := inputsOf(ob)
		var a, b, ao, bo clip.Paths64
		if obs.isD {
			a, b, ao, bo = toInt(obs.cD, obs.scale), toInt(ref.cD, ref.scale), toInt(obs.oD, obs.scale), toInt(ref.oD, ref.scale)
		} else {
			a, b, ao, bo = obs.c64, ref.c64, obs.o64, ref.o64
		}
		// the symptom names a property of the INPUT that the finding depends
		// on, so that a listed finding stays specific
		suffix := "+tied-minima" // this tier is only used when input vertices share a Y
		if coincidentEdges(inC) {
			suffix += "+coincident-input-edges"
		}
		if d, n := regionDiff(a, b, inC, inO, uint64(c.opIndex)+1); d != "" {
			report(tier, ref, "region-differs"+suffix, d)
		} else if n > 0 {
			c.st.Judged[tier+"/points"] += int64(n)
		}
		if d := openDiff(ao, bo, inC); d != "" {
			report(tier, ref, "open-region-differs"+suffix, d)
		}
	}
	exact := func(tier string, ref *Outcome) {
		c.st.Judged[tier]++
		if !sameOutcome(obs, ref) {
			report(tier, ref, symptomOf(obs, ref), "outcome is not bit-identical to the fresh engine's")
		}
	}

	isEngine := ob.kind == "c64" || ob.kind == "cd"
	vsimrt.Tick()
	ref := c.reference(ob, op, refSame)
	if ref.Diverged {
		c.st.RefDiverge++
		return
	}
	unique := false
	if isEngine && (ob.addAfterExec || op.has("ref-onecall")) {
		unique = distinctY(ob)
		if unique {
			c.probe("history with pairwise distinct vertex Y (bit-identity required after adds)")
		}
	}
	switch {
	case !isEngine || !ob.addAfterExec:
		exact("EXACT/same-calls", &ref)
	case unique:
		exact("EXACT/add-after-exec/distinct-Y", &ref)
	default:
		field("FIELD(ties: ok-flag and panics judged, region informational)/add-after-exec", &ref)
	}
	if isEngine && op.has("ref-merged") && !ob.addAfterExec {
		r2 := c.reference(ob, op, refMerged)
		if !r2.Diverged {
			exact("EXACT/adjacent-calls-merged", &r2)
			c.fire("add-split")
		}
	}
	if isEngine && op.has("ref-onecall") {
		r3 := c.reference(ob, op, refOneCall)
		if !r3.Diverged {
			if unique {
				exact("EXACT/one-call-per-kind/distinct-Y", &r3)
			} else {
				field("FIELD(ties: ok-flag and panics judged, region informational)/one-call-per-kind", &r3)
			}
			c.fire("add-reorder")
		}
	}
}

func clipStr(s string) string {
	if len(s) > 4000 {
		return s[:4000] + fmt.Sprintf("...(%d bytes)", len(s))
	}
	return s
}

// runHistoryTask runs one task's script, judging every execute when c.judge
// is set, and returns the outcomes.
func (c *Ctx) runScript(ops []Op) []Outcome {
	outs := make([]Outcome, len(ops))
	for i := range ops {
		op := &ops[i]
		c.opIndex = i
		d := catalogue[op.K]
		var ob *Obj
		out := c.runOp(op)
		if d != nil && d.obj != "" {
			ob = c.obj(op.O)
		}
		if len(ownedRing) > 0 {
			c.verifyOwned("result-stability")
		}
		if d != nil && d.exec && ob != nil {
			if !ob.dead {
				if ob.execs > 0 {
					c.probe("second execute on one engine")
					c.fire("exec-other")
				}
				if ob.hadTree && !strings.HasSuffix(op.K, "PolyTree") {
					c.probe("tree then flat")
					c.fire("exec-tree")
				}
				if (ob.kind == "c64" || ob.kind == "cd") && op.i(0) == 0 {
					c.fire("exec-noclip")
				}
				if c.judge {
					c.judgeC12(ob, op, &out)
				}
				ob.execs++
				if strings.HasSuffix(op.K, "PolyTree") {
					ob.hadTree = true
				}
			}
			c.keep(op, d, ob, &out)
			out.freeze()
			c.afterExec(ob, op)
		} else {
			if op.has("scribble-res") {
				out.freeze()
				c.scribbleResults(&out)
			} else {
				c.keep(op, d, ob, &out)
				out.freeze()
			}
		}
		out.k64, out.kD, out.ko64, out.koD = nil, nil, nil, nil
		outs[i] = out
		if op.has("repeat-prev") && i > 0 && sameCall(&ops[i-1], op) && ob != nil && !ob.dead {
			// the same call on the same object with the same arguments, into a
			// fresh solution variable, into the variable that holds the previous
			// answer, or into one filled with junk: an execute does not change
			// what the object was given and replaces what the solution held,
			// so the answer must be the same
			c.st.Judged["repeat/same-object-repeat/"+op.K]++
			if !budgetEdge(&outs[i], &outs[i-1], c.budget) && !sameOutcome(&outs[i], &outs[i-1]) {
				c.viol = append(c.viol, Violation{Class: "repeat", Task: c.task, OpIndex: i, OpKind: op.K, Pert: "same-object-repeat",
					Symptom: symptomOf(&outs[i], &outs[i-1]), Detail: "the same execute on the same object with the same arguments returned something else the second time",
					Expected: clipStr(outs[i-1].key()), Observed: clipStr(outs[i].key())})
			}
		}
	}
	class := "result-stability"
	if c.judge {
		class = "history"
	}
	c.verifyKept(class)
	return outs
}

// sameCall: the same operation kind on the same object with the same
// arguments (the minimiser may have removed the original of a repeat: the
// check then simply does not apply).
func sameCall(a, b *Op) bool {
	if a.K != b.K || a.O != b.O || a.N != b.N || len(a.I) != len(b.I) || len(a.F) != len(b.F) || len(a.A) != len(b.A) {
		return false
	}
	for i := range a.I {
		if a.I[i] != b.I[i] {
			return false
		}
	}
	for i := range a.F {
		if math.Float64bits(a.F[i]) != math.Float64bits(b.F[i]) {
			return false
		}
	}
	for i := range a.A {
		if a.A[i] != b.A[i] {
			return false
		}
	}
	return true
}
