package main

import (
	"encoding/json"
	"flag"
	"fmt"
	"os"
	"os/exec"
	"path/filepath"
	"runtime"
	"sort"
	"strings"
	"sync"
	"time"

	"vsimrt"
)

type envVariant struct {
	name string
	env  []string
}

var envBase = envVariant{"GOMAXPROCS=2", []string{"GOMAXPROCS=2"}}
var envVariants = []envVariant{
	{"GOMAXPROCS=1 GOGC=off", []string{"GOMAXPROCS=1", "GOGC=off"}},
	{"GOMAXPROCS=4 GOGC=10", []string{"GOMAXPROCS=4", "GOGC=10"}},
	{"GOMAXPROCS=16 GOGC=100", []string{"GOMAXPROCS=16", "GOGC=100"}},
}

type coord struct {
	self     string
	tmp      string
	prop     string
	tier     string
	seed     uint64
	workers  int
	nextFile int
	mu       sync.Mutex
}

// coldRun returns the run index that was the first of its worker batch in the
// original search (that run is executed concurrent-phase first).
func (c *coord) coldRun(from int) int {
	b := planFor(c.prop, c.tier).batch
	if b <= 0 {
		return from
	}
	return from / b * b
}

func (c *coord) tmpFile(tag string) string {
	c.mu.Lock()
	defer c.mu.Unlock()
	c.nextFile++
	return filepath.Join(c.tmp, fmt.Sprintf("%s-%d.json", tag, c.nextFile))
}

func (c *coord) command(env envVariant, args ...string) *exec.Cmd {
	cmd := exec.Command(c.self, args...)
	cmd.Env = append(os.Environ(), env.env...)
	if vsimrt.RaceBuild {
		cmd.Env = append(cmd.Env, "GORACE=halt_on_error=0 exitcode=0 atexit_sleep_ms=0 log_path="+filepath.Join(c.tmp, "race"))
	}
	cmd.Stderr = os.Stderr
	return cmd
}

// runBatch runs one worker process and returns its output. Any failure of the
// worker itself is infrastructure trouble (exit 2), never a verdict.
func (c *coord) runBatch(env envVariant, from, to int, extra ...string) (*WorkerOut, error) {
	out := c.tmpFile("w")
	args := append([]string{"worker", "-prop", c.prop, "-seed", fmt.Sprint(c.seed), "-from", fmt.Sprint(from), "-to", fmt.Sprint(to), "-tier", c.tier, "-out", out}, extra...)
	cmd := c.command(env, args...)
	var stdout strings.Builder
	cmd.Stdout = &stdout
	if err := cmd.Run(); err != nil {
		return nil, fmt.Errorf("worker runs [%d,%d) failed: %v %s", from, to, err, stdout.String())
	}
	b, err := os.ReadFile(out)
	if err != nil {
		return nil, err
	}
	os.Remove(out)
	var w WorkerOut
	if err := json.Unmarshal(b, &w); err != nil {
		return nil, err
	}
	return &w, nil
}

// execOnce runs one literal script in a fresh process.
func (c *coord) execOnce(env envVariant, s *Script) (*ExecOut, error) {
	in := c.tmpFile("s")
	out := c.tmpFile("r")
	b, _ := json.Marshal(s)
	if err := os.WriteFile(in, b, 0o644); err != nil {
		return nil, err
	}
	defer os.Remove(in)
	defer os.Remove(out)
	cmd := c.command(env, "exec", "-in", in, "-out", out)
	if err := cmd.Run(); err != nil {
		return nil, fmt.Errorf("exec failed: %v", err)
	}
	rb, err := os.ReadFile(out)
	if err != nil {
		return nil, err
	}
	var eo ExecOut
	if err := json.Unmarshal(rb, &eo); err != nil {
		return nil, err
	}
	// the race log of that process
	matches, _ := filepath.Glob(filepath.Join(c.tmp, "race.*"))
	for _, m := range matches {
		os.Remove(m)
	}
	return &eo, nil
}

type tierPlan struct {
	runs  int
	batch int
	capS  float64 // wall-clock cap for the search phase
	minS  float64 // wall-clock cap per minimisation
	cross int     // C17: batches re-run under other environments
}

func planFor(prop, tier string) tierPlan {
	q := tier != "thorough"
	switch prop {
	case "C12":
		if q {
			return tierPlan{runs: 64000, batch: 500, capS: 120, minS: 30}
		}
		return tierPlan{runs: 4000000, batch: 2000, capS: 1800, minS: 120}
	case "C17":
		if q {
			return tierPlan{runs: 14000, batch: 250, capS: 120, minS: 30, cross: 1 << 30}
		}
		return tierPlan{runs: 1500000, batch: 1000, capS: 1500, minS: 120, cross: 1 << 30}
	default:
		if q {
			return tierPlan{runs: 8000, batch: 100, capS: 120, minS: 45}
		}
		return tierPlan{runs: 600000, batch: 250, capS: 2400, minS: 180}
	}
}

type foundItem struct {
	fv   FoundViolation
	from int // first run of the worker batch that found it
}

func cmdRun(args []string) int {
	fs := flag.NewFlagSet("run", flag.ExitOnError)
	prop := fs.String("prop", "", "")
	tier := fs.String("tier", "quick", "")
	seed := fs.Uint64("seed", 1, "")
	evidence := fs.String("evidence", "", "")
	replays := fs.String("replays", "replays", "")
	findings := fs.String("findings", "known_findings.json", "")
	meta := fs.String("meta", "", "directory with the instrumenter's json output")
	workers := fs.Int("workers", runtime.NumCPU(), "")
	runsFlag := fs.Int("runs", 0, "override the number of runs")
	capFlag := fs.Float64("cap", 0, "override the wall-clock cap of the search phase (s)")
	fs.Parse(args)
	if *prop != "C12" && *prop != "C17" && *prop != "C18" {
		fmt.Fprintln(os.Stderr, "vsim run: -prop must be C12, C17 or C18")
		return 2
	}
	if *prop == "C18" && !vsimrt.RaceBuild {
		fmt.Fprintln(os.Stderr, "vsim run: C18 needs the race-detector build of the harness")
		return 2
	}
	start := time.Now()
	self, err := os.Executable()
	if err != nil {
		fmt.Fprintln(os.Stderr, err)
		return 2
	}
	tmp, err := os.MkdirTemp("", "vsim-coord-")
	if err != nil {
		fmt.Fprintln(os.Stderr, err)
		return 2
	}
	defer os.RemoveAll(tmp)
	c := &coord{self: self, tmp: tmp, prop: *prop, tier: *tier, seed: *seed, workers: *workers}
	plan := planFor(*prop, *tier)
	if *runsFlag > 0 {
		plan.runs = *runsFlag
	}
	if *capFlag > 0 {
		plan.capS = *capFlag
	}
	fmt.Printf("vsim: property=%s tier=%s VERIF_SEED=%d runs<=%d batch=%d workers=%d race_build=%v\n", *prop, *tier, *seed, plan.runs, plan.batch, *workers, vsimrt.RaceBuild)

	// ---- search phase ----
	type job struct{ from, to int }
	jobs := make(chan job)
	type done struct {
		w    *WorkerOut
		from int
		err  error
	}
	results := make(chan done)
	var wg sync.WaitGroup
	for i := 0; i < *workers; i++ {
		wg.Add(1)
		go func() {
			defer wg.Done()
			for j := range jobs {
				// a worker stops after a run in which tasks had to be torn
				// down (its process may be left in a half-way state); the
				// rest of the batch goes to a fresh process
				for from := j.from; from < j.to; {
					w, err := c.runBatch(envBase, from, j.to)
					results <- done{w, j.from, err}
					if err != nil || !w.StoppedEarly || w.NextRun <= from {
						break
					}
					from = w.NextRun
				}
			}
		}()
	}
	go func() {
		for from := 0; from < plan.runs; from += plan.batch {
			if time.Since(start).Seconds() > plan.capS {
				break
			}
			to := from + plan.batch
			if to > plan.runs {
				to = plan.runs
			}
			jobs <- job{from, to}
		}
		close(jobs)
		wg.Wait()
		close(results)
	}()
	agg := newAggregate(*prop, *tier, *seed)
	var found []foundItem
	baseDig := map[int]uint64{} // run -> outcome digest in the base environment, forward order
	batchEnds := map[int]int{}  // batch start -> end, for the batches that ran
	var firstBatch *WorkerOut
	infra := 0
	dropped := 0
	for d := range results {
		if d.err != nil {
			fmt.Fprintln(os.Stderr, "vsim:", d.err)
			infra++
			continue
		}
		agg.add(d.w)
		dropped += d.w.DroppedFound
		if d.w.From == 0 && !d.w.StoppedEarly {
			firstBatch = d.w
		}
		if d.w.To > batchEnds[d.from] {
			batchEnds[d.from] = d.w.To
		}
		if *prop == "C17" {
			for i, dg := range d.w.Digests {
				if dg != 0 {
					baseDig[d.w.From+i] = dg
				}
			}
		}
		for _, fv := range d.w.Found {
			found = append(found, foundItem{fv, d.from})
		}
	}
	if infra > 0 {
		// what the other workers found is still triaged; without any
		// confirmed violation the run ends with exit 2 (see below)
		fmt.Println("vsim: worker failure(s): trouble with the machinery or the build (or a crash of the code under test that the simulator could not contain); not a verdict by itself")
	}
	if dropped > 0 {
		fmt.Printf("vsim: NOTE: %d violating runs were not forwarded by workers that had already kept 400\n", dropped)
	}
	searchS := time.Since(start).Seconds()

	// ---- C17: every batch again in another environment, runs in reverse order ----
	if *prop == "C17" {
		var starts []int
		for f := range batchEnds {
			starts = append(starts, f)
		}
		sort.Ints(starts)
		if len(starts) > plan.cross {
			starts = starts[:plan.cross]
		}
		var mu sync.Mutex
		sem := make(chan struct{}, *workers)
		var cwg sync.WaitGroup
		for k, f := range starts {
			f, ev := f, envVariants[k%len(envVariants)]
			to := batchEnds[f]
			cwg.Add(1)
			sem <- struct{}{}
			go func() {
				defer cwg.Done()
				defer func() { <-sem }()
				// one re-run per batch: another environment AND the runs in
				// reverse order (a result that depends on the calls made
				// earlier in the process shows as well as one that depends on
				// GOMAXPROCS, GOGC, the map hash seed or the heap layout)
				for hi := to; hi > f; {
					w, err := c.runBatch(ev, f, hi, "-reverse")
					mu.Lock()
					if err != nil {
						fmt.Fprintln(os.Stderr, "vsim:", err)
						infra++
						mu.Unlock()
						return
					}
					agg.crossRuns += w.Runs
					agg.fired["env:"+ev.name] += int64(w.Runs)
					agg.fired["reverse-run-order"] += int64(w.Runs)
					for i, dg := range w.Digests {
						run := f + i
						base, ok := baseDig[run]
						if !ok || dg == 0 || base == 0 || dg == base {
							continue
						}
						s, _ := genScript("C17", *seed, run, *tier == "thorough")
						found = append(found, foundItem{FoundViolation{Script: s,
							Cross: &CrossReplay{Seed: *seed, From: f, To: to, Run: run, Tier: *tier, EnvB: ev.name, ReverseB: true},
							Violations: []Violation{{Class: "cross-process", Symptom: "differs-across-processes", Pert: ev.name + " reverse-order",
								OpKind: s.Tasks[0][0].K, Detail: fmt.Sprintf("outcome digest %x in a process under %s running the batch forwards but %x under %s running it backwards", base, envBase.name, dg, ev.name)}}}, f})
						break
					}
					stopped, next := w.StoppedEarly, w.NextRun
					mu.Unlock()
					if !stopped || next+1 >= hi {
						break
					}
					hi = next + 1
				}
			}()
		}
		cwg.Wait()
	}

	// ---- replay proof on a sample: the first batch again, in another process
	// and environment, must give the same event logs and verdicts ----
	if *prop != "C17" && firstBatch != nil {
		if w, err := c.runBatch(envVariants[2], 0, len(firstBatch.Digests)); err == nil {
			same := len(w.Digests) == len(firstBatch.Digests)
			for i := range firstBatch.Digests {
				if !same || w.Digests[i] != firstBatch.Digests[i] || w.SchedHash[i] != firstBatch.SchedHash[i] {
					same = false
					break
				}
			}
			agg.selfcheck = fmt.Sprintf("runs 0..%d repeated in a second process (%s): event-log and verdict digests identical: %v", len(firstBatch.Digests)-1, envVariants[2].name, same)
			if !same {
				fmt.Println("vsim: NOTE: two processes running the same seed disagree: either the code under test is nondeterministic (that is property C17) or the simulator is; replays may not reproduce")
			}
		}
	}

	// ---- triage: minimise, key, compare with the known findings ----
	kf, err := loadFindings(*findings)
	if err != nil {
		fmt.Fprintln(os.Stderr, "vsim:", err)
		return 2
	}
	sort.SliceStable(found, func(i, j int) bool { return found[i].fv.Script.Run < found[j].fv.Script.Run })
	os.MkdirAll(*replays, 0o755)
	exit := 0
	seenKey := map[string]bool{}
	reported := 0
	var knownLines []string
	maxTriage := 5
	if *tier == "thorough" {
		maxTriage = 20
	}
	triageStart := time.Now()
	triageBudget := 150.0 // seconds of minimisation per run of the check; later violations are confirmed but not minimised
	if *tier == "thorough" {
		triageBudget = 900
	}
	printedKnown := map[string]bool{}
	known := func(e *Finding, key, path string) {
		if !printedKnown[e.Key] {
			printedKnown[e.Key] = true
			line := fmt.Sprintf("KNOWN-FINDING: property=%s %s [listed as %s; seen as %s]", *prop, e.What, e.Key, key)
			if path != "" {
				line += " replay=" + path
			}
			fmt.Println(line)
			knownLines = append(knownLines, line)
			agg.known = append(agg.known, e.Key)
		}
	}
	skipped := 0
	unreproduced := 0
	failedTriage := map[string]int{}
	for _, it := range found {
		vs := append([]Violation{}, it.fv.Violations...)
		sort.SliceStable(vs, func(i, j int) bool { return classPriority(&vs[i]) < classPriority(&vs[j]) })
		for _, v := range vs {
			roughKey := findingKey(*prop, &v)
			if seenKey["rough:"+roughKey] || failedTriage[roughKey] >= 3 {
				continue
			}
			if e := kf.match(*prop, roughKey); e != nil && e.Status == "known" {
				seenKey["rough:"+roughKey] = true
				known(e, roughKey, "")
				continue
			}
			if reported >= maxTriage {
				skipped++
				continue
			}
			minS := plan.minS
			if time.Since(triageStart).Seconds() > triageBudget {
				minS = 0
			}
			rep := c.triage(it, v, minS)
			if rep.Infra != "" {
				// another run with the same key may still reproduce: the key
				// is only retired after a successful triage (or three failures)
				failedTriage[roughKey]++
				fmt.Printf("HARNESS-NONDETERMINISM seed=%d run=%d: %s\n", *seed, it.fv.Script.Run, rep.Infra)
				unreproduced++
				if it.fv.RaceLog != "" {
					fmt.Printf("race report seen by the worker:\n%s\n", clipShort(it.fv.RaceLog+strings.Repeat(" ", 1)))
				}
				dump, _ := json.Marshal(it.fv)
				os.WriteFile(filepath.Join(*replays, fmt.Sprintf("unreproduced-%s-%d-%d.json", *prop, *seed, it.fv.Script.Run)), dump, 0o644)
				continue
			}
			seenKey["rough:"+roughKey] = true
			if seenKey[rep.Key] {
				continue
			}
			seenKey[rep.Key] = true
			path := filepath.Join(*replays, fmt.Sprintf("%s-%d-%d-%d.json", *prop, *seed, it.fv.Script.Run, reported))
			rep.HowTo = "cd /verif && ./check.sh replay " + path
			b, _ := json.MarshalIndent(rep, "", " ")
			os.WriteFile(path, b, 0o644)
			if e := kf.match(*prop, rep.Key); e != nil && e.Status == "known" {
				known(e, rep.Key, path)
				continue
			}
			reported++
			fmt.Printf("VIOLATION property=%s replay=%s\n", *prop, path)
			fmt.Printf("  key=%s\n  %s\n", rep.Key, rep.Violation.Detail)
			agg.violations++
			if exit == 0 {
				exit = 1
			}
		}
	}
	if infra > 0 && exit == 0 {
		exit = 2
	}
	if unreproduced > 0 && exit == 0 {
		// something was seen that could not be replayed: that is trouble with
		// the machinery, not a verdict (confirmed violations keep exit 1)
		exit = 2
	}
	if skipped > 0 {
		fmt.Printf("vsim: %d further distinct unlisted violation key(s) were not minimised (limit %d per run of the check)\n", skipped, maxTriage)
	}
	agg.wallS = time.Since(start).Seconds()
	agg.searchS = searchS
	agg.violatingRuns = len(found)
	if *evidence != "" {
		if err := agg.write(*evidence, *meta); err != nil {
			fmt.Fprintln(os.Stderr, "vsim: writing evidence:", err)
			return 2
		}
	}
	fmt.Printf("vsim: %d runs in %.1fs (%.0f runs/h), %d violating runs, %d unlisted violation(s), %d known finding(s); evidence=%s\n",
		agg.runs, agg.wallS, float64(agg.runs)/agg.searchS*3600, agg.nViolRuns, agg.violations, len(knownLines), *evidence)
	return exit
}

// ---------------------------------------------------------------------------
// replay
// ---------------------------------------------------------------------------

type PrefixReplay struct {
	Seed uint64 `json:"seed"`
	From int    `json:"from"`
	Run  int    `json:"run"`
	Tier string `json:"tier"`
}

type Replay struct {
	Property  string     `json:"property"`
	Kind      string     `json:"kind,omitempty"` // "" literal script | seeded-prefix
	Prefix    *PrefixReplay `json:"prefix,omitempty"`
	Cross     *CrossReplay  `json:"cross,omitempty"`
	Key       string     `json:"finding_key"`
	Violation Violation  `json:"violation"`
	Script    *Script    `json:"script"`
	Original  *sizeInfo  `json:"original_size,omitempty"`
	Minimised *sizeInfo  `json:"minimised_size,omitempty"`
	Tried     int        `json:"minimisation_candidates"`
	RaceLog   string     `json:"race_report,omitempty"`
	Env       string     `json:"environment,omitempty"`
	HowTo     string     `json:"how_to_replay"`
	Infra     string     `json:"-"`
	AlsoSeen  []Violation `json:"other_violations_in_this_run,omitempty"`
}

type sizeInfo struct {
	Tasks, Ops, Paths, Vertices, Decisions int
}

func sizeOf(s *Script) *sizeInfo {
	si := &sizeInfo{Tasks: len(s.Tasks), Ops: s.numOps(), Decisions: len(s.Decisions)}
	for _, e := range s.Pool {
		si.Paths += len(e.P64) + len(e.PD)
		for _, p := range e.P64 {
			si.Vertices += len(p) / 2
		}
		for _, p := range e.PD {
			si.Vertices += len(p) / 2
		}
	}
	return si
}

func cmdReplay(args []string) int {
	fs := flag.NewFlagSet("replay", flag.ExitOnError)
	file := fs.String("file", "", "")
	fs.Parse(args)
	b, err := os.ReadFile(*file)
	if err != nil {
		fmt.Fprintln(os.Stderr, err)
		return 2
	}
	var rep Replay
	if err := json.Unmarshal(b, &rep); err != nil || rep.Script == nil {
		fmt.Fprintln(os.Stderr, "not a replay file:", err)
		return 2
	}
	self, _ := os.Executable()
	tmp, err := os.MkdirTemp("", "vsim-replay-")
	if err != nil {
		fmt.Fprintln(os.Stderr, err)
		return 2
	}
	defer os.RemoveAll(tmp)
	c := &coord{self: self, tmp: tmp, prop: rep.Property}
	if rep.Kind == "cross-process-batch" && rep.Cross != nil {
		c.seed, c.tier = rep.Cross.Seed, rep.Cross.Tier
		if v := c.crossReproduces(rep.Cross, &rep.Violation); v != nil {
			fmt.Printf("VIOLATION property=%s replay=%s\n  key=%s\n  %s\n", rep.Property, *file, findingKey(rep.Property, v), v.Detail)
			return 1
		}
		fmt.Printf("replay %s: the recorded violation does not occur on this tree (property=%s key=%s)\n", *file, rep.Property, rep.Key)
		return 0
	}
	if rep.Kind == "seeded-prefix" && rep.Prefix != nil {
		c.seed, c.tier = rep.Prefix.Seed, rep.Prefix.Tier
		if v := c.prefixReproduces(rep.Prefix.From, rep.Prefix.Run, &rep.Violation); v != nil {
			fmt.Printf("VIOLATION property=%s replay=%s\n  key=%s\n  %s (runs %d..%d of VERIF_SEED=%d replayed in one fresh process)\n", rep.Property, *file, findingKey(rep.Property, v), v.Detail, rep.Prefix.From, rep.Prefix.Run, rep.Prefix.Seed)
			return 1
		}
		fmt.Printf("replay %s: the recorded violation does not occur on this tree (property=%s key=%s)\n", *file, rep.Property, rep.Key)
		return 0
	}
	attempts := 1
	if rep.Property == "C17" {
		attempts = 6 // the code under test may itself be nondeterministic: that is what C17 is about
	}
	var hit *Violation
	var eo *ExecOut
	for i := 0; i < attempts && hit == nil; i++ {
		hit, eo, err = c.reproduces(rep.Script, &rep.Violation)
		if err != nil {
			fmt.Fprintln(os.Stderr, err)
			return 2
		}
	}
	if hit != nil {
		fmt.Printf("VIOLATION property=%s replay=%s\n  key=%s\n  %s\n", rep.Property, *file, findingKey(rep.Property, hit), hit.Detail)
		if hit.Expected != "" {
			fmt.Printf("  expected: %s\n  observed: %s\n", clipShort(hit.Expected), clipShort(hit.Observed))
		}
		if eo != nil && eo.RaceLog != "" {
			fmt.Println(eo.RaceLog)
		}
		return 1
	}
	fmt.Printf("replay %s: the recorded violation does not occur on this tree (property=%s key=%s)\n", *file, rep.Property, rep.Key)
	return 0
}

func clipShort(s string) string {
	if len(s) > 600 {
		return s[:600] + "..."
	}
	return s
}

// reproduces executes the script in a fresh process (for cross-process
// findings: in several environments) and returns the violation that matches
// want's class, if it occurs.
func (c *coord) reproduces(s *Script, want *Violation) (*Violation, *ExecOut, error) {
	if want.Class == "cross-process" {
		base, err := c.execOnce(envBase, s)
		if err != nil {
			return nil, nil, err
		}
		for _, ev := range envVariants {
			o, err := c.execOnce(ev, s)
			if err != nil {
				return nil, nil, err
			}
			if o.Digest != base.Digest {
				v := *want
				v.Pert = ev.name
				v.Detail = fmt.Sprintf("outcome digest %x under %s but %x under %s", base.Digest, envBase.name, o.Digest, ev.name)
				return &v, o, nil
			}
		}
		return nil, base, nil
	}
	eo, err := c.execOnce(envBase, s)
	if err != nil {
		return nil, nil, err
	}
	return matchViolation(eo.Violations, want), eo, nil
}

// matchViolation finds a violation of the same class and symptom (and, when
// possible, at the same kind of operation).
func matchViolation(vs []Violation, want *Violation) *Violation {
	for i := range vs {
		if vs[i].Class == want.Class && vs[i].Symptom == want.Symptom && vs[i].OpKind == want.OpKind {
			return &vs[i]
		}
	}
	for i := range vs {
		if vs[i].Class == want.Class && vs[i].Symptom == want.Symptom && want.Class == "race" {
			return &vs[i]
		}
	}
	return nil
}

// ---------------------------------------------------------------------------
// selftest: determinism of the simulator itself
// ---------------------------------------------------------------------------

func cmdSelftest(args []string) int {
	fs := flag.NewFlagSet("selftest", flag.ExitOnError)
	prop := fs.String("prop", "C18", "")
	seed := fs.Uint64("seed", 1, "")
	runs := fs.Int("runs", 64, "")
	reps := fs.Int("reps", 3, "processes per environment")
	fs.Parse(args)
	self, _ := os.Executable()
	tmp, err := os.MkdirTemp("", "vsim-self-")
	if err != nil {
		fmt.Fprintln(os.Stderr, err)
		return 2
	}
	defer os.RemoveAll(tmp)
	c := &coord{self: self, tmp: tmp, prop: *prop, tier: "quick", seed: *seed}
	var base *WorkerOut
	bad := 0
	procs := 0
	var mu sync.Mutex
	var wg sync.WaitGroup
	sem := make(chan struct{}, runtime.NumCPU())
	check := func(ev envVariant) {
		defer wg.Done()
		defer func() { <-sem }()
		w, err := c.runBatch(ev, 0, *runs)
		mu.Lock()
		defer mu.Unlock()
		procs++
		if err != nil {
			fmt.Fprintln(os.Stderr, err)
			bad++
			return
		}
		if base == nil {
			base = w
			return
		}
		for i := range base.Digests {
			if w.Digests[i] != base.Digests[i] || w.SchedHash[i] != base.SchedHash[i] {
				fmt.Printf("HARNESS-NONDETERMINISM prop=%s seed=%d run=%d env=%q: event-log digest %x/%x vs %x/%x\n", *prop, *seed, i, ev.name, w.Digests[i], w.SchedHash[i], base.Digests[i], base.SchedHash[i])
				bad++
				return
			}
		}
	}
	for r := 0; r < *reps; r++ {
		for _, ev := range append([]envVariant{envBase}, envVariants...) {
			wg.Add(1)
			sem <- struct{}{}
			go check(ev)
		}
	}
	wg.Wait()
	if bad > 0 {
		return 2
	}
	fmt.Printf("selftest: prop=%s seed=%d: %d runs x %d processes (GOMAXPROCS 1/2/4/16, GOGC off/10/100): identical event logs and outcomes\n", *prop, *seed, *runs, procs)
	return 0
}

// minimise is a debugging aid: shrink a script that shows a given violation.
func cmdMinimise(args []string) int {
	fs := flag.NewFlagSet("minimise", flag.ExitOnError)
	in := fs.String("in", "", "")
	class := fs.String("class", "history", "")
	symptom := fs.String("symptom", "", "")
	opkind := fs.String("opkind", "", "")
	secs := fs.Float64("secs", 30, "")
	fs.Parse(args)
	b, err := os.ReadFile(*in)
	if err != nil {
		fmt.Fprintln(os.Stderr, err)
		return 2
	}
	var s Script
	if err := json.Unmarshal(b, &s); err != nil {
		fmt.Fprintln(os.Stderr, err)
		return 2
	}
	self, _ := os.Executable()
	tmp, _ := os.MkdirTemp("", "vsim-min-")
	defer os.RemoveAll(tmp)
	c := &coord{self: self, tmp: tmp, prop: s.Prop}
	sh := &shrinker{c: c, want: Violation{Class: *class, Symptom: *symptom, OpKind: *opkind}, deadline: time.Now().Add(time.Duration(*secs * float64(time.Second))), inproc: s.Prop == "C12"}
	if !sh.test(&s) {
		fmt.Fprintln(os.Stderr, "the script does not show that violation")
		return 1
	}
	min := sh.minimise(&s)
	sh.test(min)
	out, _ := json.Marshal(map[string]any{"script": min, "violation": sh.last, "tried": sh.tried})
	os.Stdout.Write(out)
	fmt.Println()
	return 0
}

func envByName(name string) envVariant {
	for _, e := range envVariants {
		if e.name == name {
			return e
		}
	}
	return envBase
}

// crossReproduces re-runs the two worker configurations of a cross-process
// finding and classifies the difference: does the run's outcome depend on the
// environment, or on the calls made earlier in the process?
func (c *coord) crossReproduces(cr *CrossReplay, want *Violation) *Violation {
	for attempt := 0; attempt < 3; attempt++ {
		a, err := c.runBatch(envBase, cr.From, cr.To)
		if err != nil {
			return nil
		}
		var extra []string
		if cr.ReverseB {
			extra = append(extra, "-reverse")
		}
		b, err := c.runBatch(envByName(cr.EnvB), cr.From, cr.To, extra...)
		if err != nil {
			return nil
		}
		i := cr.Run - cr.From
		if i < 0 || i >= len(a.Digests) || i >= len(b.Digests) || a.Digests[i] == b.Digests[i] || a.Digests[i] == 0 || b.Digests[i] == 0 {
			continue
		}
		v := *want
		cause := "the environment (" + cr.EnvB + ")"
		if f, err := c.runBatch(envByName(cr.EnvB), cr.From, cr.To); err == nil && i < len(f.Digests) && f.Digests[i] == a.Digests[i] {
			cause = "the calls made earlier in the same process (the batch was executed in reverse order)"
			v.Pert = "call-history"
		} else {
			v.Pert = "environment"
		}
		v.Detail = fmt.Sprintf("run %d of VERIF_SEED=%d gives outcome digest %x in one process and %x in another; the difference follows %s", cr.Run, cr.Seed, a.Digests[i], b.Digests[i], cause)
		return &v
	}
	return nil
}
