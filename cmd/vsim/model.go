package main

import (
	"encoding/json"
	"reflect"
	"hash/fnv"
	"math"
	"strconv"
	"unsafe"

	clip "github.com/bolom009/go-clipper2"
	"vsimrt"
)

// ---------------------------------------------------------------------------
// Script: a fully materialised simulation input. A replay file is a Script
// plus the scheduling decisions and what was observed.
// ---------------------------------------------------------------------------

// PoolEntry is one caller-owned input path set. In C18 runs the materialised
// slices are shared (read-only) between tasks.
type PoolEntry struct {
	P64   [][]int64   `json:"p64,omitempty"` // each path flat: x0,y0,x1,y1,...
	PD    [][]float64 `json:"pd,omitempty"`
	IsD   bool        `json:"d,omitempty"`
	Slack int         `json:"slack,omitempty"` // spare capacity (points) behind every path
}

// Op is one operation of a script.
type Op struct {
	K string    `json:"k"`           // kind (catalogue name)
	O int       `json:"o,omitempty"` // object slot of the task
	A []int     `json:"a,omitempty"` // pool references (-1: nil)
	I []int64   `json:"i,omitempty"` // integer parameters
	F []float64 `json:"f,omitempty"` // float parameters
	P []string  `json:"p,omitempty"` // perturbations attached to this operation
	N int       `json:"n,omitempty"` // which path of an input a single-path argument takes (index modulo the number of paths)
}

func (o *Op) i(k int) int64 {
	if k < len(o.I) {
		return o.I[k]
	}
	return 0
}
func (o *Op) f(k int) float64 {
	if k < len(o.F) {
		return o.F[k]
	}
	return 0
}
func (o *Op) a(k int) int {
	if k < len(o.A) {
		return o.A[k]
	}
	return -1
}
func (o *Op) has(p string) bool {
	for _, x := range o.P {
		if x == p {
			return true
		}
	}
	return false
}

// Decision is one scheduling decision (what the chooser returned).
type Decision struct {
	T  int   `json:"t"`
	N  int64 `json:"n"`
	Sh int64 `json:"sh,omitempty"`
}

type Script struct {
	Prop      string      `json:"prop"`
	Seed      uint64      `json:"seed"`
	Run       int         `json:"run"`
	Pool      []PoolEntry `json:"pool"`
	Tasks     [][]Op      `json:"tasks"`
	SoloFirst bool        `json:"solo_first,omitempty"`
	PoolSeed  uint64      `json:"pool_seed"`
	PoolFresh int         `json:"pool_fresh_permille"`
	Strategy  string      `json:"strategy,omitempty"`
	Decisions []Decision  `json:"decisions,omitempty"`
	Budget    int64       `json:"budget"`
	Note      string      `json:"note,omitempty"`
}

func (s *Script) clone() *Script {
	b, _ := json.Marshal(s)
	var c Script
	if err := json.Unmarshal(b, &c); err != nil {
		panic(err)
	}
	return &c
}

func (s *Script) numOps() int {
	n := 0
	for _, t := range s.Tasks {
		n += len(t)
	}
	return n
}

// ---------------------------------------------------------------------------
// Materialised inputs
// ---------------------------------------------------------------------------

type Input struct {
	isD bool
	p64 clip.Paths64
	pd  clip.PathsD
}

const slackSentinel = int64(-0x5A5A5A5A5A5A)

func mat64(flat [][]int64, slack int) clip.Paths64 {
	out := make(clip.Paths64, len(flat), len(flat)+minInt(slack, 2))
	for i, f := range flat {
		n := len(f) / 2
		p := make(clip.Path64, n, n+slack)
		for j := 0; j < n; j++ {
			p[j] = clip.Point64{X: f[2*j], Y: f[2*j+1]}
		}
		full := p[:cap(p)]
		for j := n; j < len(full); j++ {
			full[j] = clip.Point64{X: slackSentinel, Y: slackSentinel}
		}
		out[i] = p
	}
	return out
}

func matD(flat [][]float64, slack int) clip.PathsD {
	out := make(clip.PathsD, len(flat), len(flat)+minInt(slack, 2))
	for i, f := range flat {
		n := len(f) / 2
		p := make(clip.PathD, n, n+slack)
		for j := 0; j < n; j++ {
			p[j] = clip.PointD{X: f[2*j], Y: f[2*j+1]}
		}
		full := p[:cap(p)]
		for j := n; j < len(full); j++ {
			full[j] = clip.PointD{X: float64(slackSentinel), Y: float64(slackSentinel)}
		}
		out[i] = p
	}
	return out
}

func minInt(a, b int) int {
	if a < b {
		return a
	}
	return b
}

func (e *PoolEntry) materialise() *Input {
	if e.IsD {
		return &Input{isD: true, pd: matD(e.PD, e.Slack)}
	}
	return &Input{p64: mat64(e.P64, e.Slack)}
}

func flat64(p clip.Paths64) [][]int64 {
	out := make([][]int64, len(p))
	for i, path := range p {
		f := make([]int64, 0, 2*len(path))
		for _, pt := range path {
			f = append(f, pt.X, pt.Y)
		}
		out[i] = f
	}
	return out
}

func flatD(p clip.PathsD) [][]float64 {
	out := make([][]float64, len(p))
	for i, path := range p {
		f := make([]float64, 0, 2*len(path))
		for _, pt := range path {
			f = append(f, pt.X, pt.Y)
		}
		out[i] = f
	}
	return out
}

func copy64(p clip.Paths64) clip.Paths64 {
	if p == nil {
		return nil
	}
	out := make(clip.Paths64, len(p))
	for i, path := range p {
		out[i] = append(clip.Path64{}, path...)
	}
	return out
}

func copyD(p clip.PathsD) clip.PathsD {
	if p == nil {
		return nil
	}
	out := make(clip.PathsD, len(p))
	for i, path := range p {
		out[i] = append(clip.PathD{}, path...)
	}
	return out
}

// digest64 hashes everything a callee could modify in a caller-owned path
// set: the outer header entries within capacity (data pointer, len, cap of
// every inner slice) and every point within the capacity of every path.
func digest64(p clip.Paths64) uint64 {
	h := fnv.New64a()
	var b [8]byte
	w := func(v uint64) {
		for i := 0; i < 8; i++ {
			b[i] = byte(v >> (8 * i))
		}
		h.Write(b[:])
	}
	w(uint64(len(p)))
	full := p[:cap(p)]
	for _, path := range full {
		w(uint64(uintptr(unsafe.Pointer(unsafe.SliceData(path)))))
		w(uint64(len(path)))
		w(uint64(cap(path)))
		for _, pt := range path[:cap(path)] {
			w(uint64(pt.X))
			w(uint64(pt.Y))
		}
	}
	return h.Sum64()
}

func digestD(p clip.PathsD) uint64 {
	h := fnv.New64a()
	var b [8]byte
	w := func(v uint64) {
		for i := 0; i < 8; i++ {
			b[i] = byte(v >> (8 * i))
		}
		h.Write(b[:])
	}
	w(uint64(len(p)))
	full := p[:cap(p)]
	for _, path := range full {
		w(uint64(uintptr(unsafe.Pointer(unsafe.SliceData(path)))))
		w(uint64(len(path)))
		w(uint64(cap(path)))
		for _, pt := range path[:cap(path)] {
			w(math.Float64bits(pt.X))
			w(math.Float64bits(pt.Y))
		}
	}
	return h.Sum64()
}

// ---------------------------------------------------------------------------
// Outcome encoding: a canonical, human-readable, bit-exact text form
// ---------------------------------------------------------------------------

type Enc struct {
	b []byte
	// result paths seen while encoding (aliases, not copies): the
	// result-stability monitor checks later that nobody wrote to them
	k64 []clip.Path64
	kD  []clip.PathD
	o64 []clip.Paths64 // outer slices of returned path lists
	oD  []clip.PathsD
}

func (e *Enc) s(x string) *Enc { e.b = append(e.b, x...); return e }
func (e *Enc) int(v int64) *Enc {
	e.b = strconv.AppendInt(e.b, v, 10)
	return e
}
func (e *Enc) flt(v float64) *Enc {
	if v == 0 && math.Signbit(v) {
		e.b = append(e.b, "-0"...)
		return e
	}
	if math.IsNaN(v) {
		e.b = append(e.b, "NaN:"...)
		e.b = strconv.AppendUint(e.b, math.Float64bits(v), 16)
		return e
	}
	e.b = strconv.AppendFloat(e.b, v, 'g', -1, 64)
	return e
}
func (e *Enc) boolean(tag string, v bool) *Enc {
	e.s(tag)
	if v {
		return e.s("=true ")
	}
	return e.s("=false ")
}
func (e *Enc) path64(p clip.Path64) *Enc {
	if cap(p) > 0 {
		e.k64 = append(e.k64, p)
	}
	e.s("[")
	for i, pt := range p {
		if i > 0 {
			e.s(" ")
		}
		e.int(pt.X).s(",").int(pt.Y)
	}
	return e.s("]")
}
func (e *Enc) pathD(p clip.PathD) *Enc {
	if cap(p) > 0 {
		e.kD = append(e.kD, p)
	}
	e.s("[")
	for i, pt := range p {
		if i > 0 {
			e.s(" ")
		}
		e.flt(pt.X).s(",").flt(pt.Y)
	}
	return e.s("]")
}
func (e *Enc) paths64(tag string, p clip.Paths64) *Enc {
	// a nil and an empty list are the same value to a caller
	if cap(p) > len(p) {
		e.o64 = append(e.o64, p)
	}
	e.s(tag).s("={")
	for _, path := range p {
		e.path64(path)
	}
	return e.s("} ")
}
func (e *Enc) pathsD(tag string, p clip.PathsD) *Enc {
	// a nil and an empty list are the same value to a caller
	if cap(p) > len(p) {
		e.oD = append(e.oD, p)
	}
	e.s(tag).s("={")
	for _, path := range p {
		e.pathD(path)
	}
	return e.s("} ")
}
func (e *Enc) rect64(tag string, r clip.Rect64) *Enc {
	p := r.AsPath()
	return e.s(tag).s("=rect").path64(p).s(" ")
}

func (e *Enc) polyBase(p *clip.PolyPathBase, depth int) *Enc {
	if p == nil {
		return e.s("<nil>")
	}
	if depth > 64 {
		return e.s("<too deep>")
	}
	e.s("(")
	e.path64(p.Polygon())
	e.s(" lvl=").int(int64(p.Level()))
	if p.IsHole() {
		e.s(" hole")
	}
	e.s(" sc=").flt(p.Scale())
	e.s(" n=").int(int64(p.Count()))
	for _, ch := range p.GetChildren() {
		e.polyBase(ch, depth+1)
	}
	return e.s(")")
}

func (e *Enc) String() string { return string(e.b) }

// Outcome of one operation.
type Outcome struct {
	Enc      string `json:"enc"`
	Panic    string `json:"panic,omitempty"`
	Diverged bool   `json:"diverged,omitempty"`
	Steps    int64  `json:"steps,omitempty"`

	// structured parts used by the region comparison (not serialised)
	ok    bool
	c64   clip.Paths64
	o64   clip.Paths64
	cD    clip.PathsD
	oD    clip.PathsD
	scale float64 // for D results: 10^precision
	isD   bool
	hasG  bool // geometry fields are set
	k64   []clip.Path64
	kD    []clip.PathD
	ko64  []clip.Paths64
	koD   []clip.PathsD
}

func (o *Outcome) key() string {
	if o.Diverged {
		return "DIVERGED"
	}
	if o.Panic != "" {
		return "PANIC:" + o.Panic + " |partial: " + o.Enc
	}
	return o.Enc
}

func sameOutcome(a, b *Outcome) bool { return a.key() == b.key() }

func panicText(r any) string {
	// no fmt here: fmt's internal sync.Pool would synchronise tasks
	tn := "?"
	if t := reflect.TypeOf(r); t != nil {
		tn = t.String()
	}
	switch v := r.(type) {
	case error:
		return tn + ": " + v.Error()
	case string:
		return "string: " + v
	case interface{ String() string }:
		return tn + ": " + v.String()
	default:
		return tn
	}
}

// protect runs f under a step budget, converting a panic or budget
// exhaustion into part of the outcome.
func protect(budget int64, f func(e *Enc, out *Outcome)) (out Outcome) {
	var e Enc
	vsimrt.BeginOp(budget)
	defer func() {
		out.Steps = vsimrt.EndOp()
		if r := recover(); r != nil {
			if _, ok := r.(vsimrt.Diverged); ok {
				out.Diverged = true
				out.Enc = ""
				return
			}
			if isKill(r) {
				panic(r)
			}
			out.Panic = panicText(r)
		}
		out.Enc = e.String()
		out.k64, out.kD, out.ko64, out.koD = e.k64, e.kD, e.o64, e.oD
	}()
	f(&e, &out)
	return
}

// isKill recognises the scheduler's kill signal, which must not be swallowed.
func isKill(r any) bool {
	return vsimrt.IsKilled(r)
}

func digPath64(p clip.Path64) uint64 {
	h := uint64(14695981039346656037)
	for _, pt := range p {
		h = (h ^ uint64(pt.X)) * 1099511628211
		h = (h ^ uint64(pt.Y)) * 1099511628211
	}
	return h
}

func digPathD(p clip.PathD) uint64 {
	h := uint64(14695981039346656037)
	for _, pt := range p {
		h = (h ^ math.Float64bits(pt.X)) * 1099511628211
		h = (h ^ math.Float64bits(pt.Y)) * 1099511628211
	}
	return h
}
