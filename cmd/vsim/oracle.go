package main

import (
	"fmt"
	"math"
	"math/rand/v2"

	clip "github.com/bolom009/go-clipper2"
)

// Region comparison ("FIELD" tier): two closed solutions must describe the
// same region outside the 2-unit rounding band around the input edges. The
// winding number is computed in exact integer arithmetic; nothing here calls
// the library under test.

type seg struct{ a, b clip.Point64 }

func edgesOf(ps clip.Paths64, closed bool) []seg {
	var out []seg
	for _, p := range ps {
		n := len(p)
		if n < 2 {
			continue
		}
		for i := 0; i+1 < n; i++ {
			out = append(out, seg{p[i], p[i+1]})
		}
		if closed && n > 2 {
			out = append(out, seg{p[n-1], p[0]})
		}
	}
	return out
}

// distPtSeg is the Euclidean distance from pt to the segment (float64 on
// coordinate differences, which are exact below 2^53).
func distPtSeg(pt clip.Point64, s seg) float64 {
	ax, ay := float64(s.a.X-pt.X), float64(s.a.Y-pt.Y)
	bx, by := float64(s.b.X-pt.X), float64(s.b.Y-pt.Y)
	dx, dy := bx-ax, by-ay
	l2 := dx*dx + dy*dy
	if l2 == 0 {
		return math.Hypot(ax, ay)
	}
	t := -(ax*dx + ay*dy) / l2
	if t < 0 {
		t = 0
	} else if t > 1 {
		t = 1
	}
	return math.Hypot(ax+t*dx, ay+t*dy)
}

func nearAny(pt clip.Point64, segs []seg, d float64) bool {
	for _, s := range segs {
		// cheap reject on the bounding box
		lox, hix := s.a.X, s.b.X
		if lox > hix {
			lox, hix = hix, lox
		}
		loy, hiy := s.a.Y, s.b.Y
		if loy > hiy {
			loy, hiy = hiy, loy
		}
		m := int64(d) + 1
		if pt.X < lox-m || pt.X > hix+m || pt.Y < loy-m || pt.Y > hiy+m {
			continue
		}
		if distPtSeg(pt, s) <= d {
			return true
		}
	}
	return false
}

// winding returns the winding number of the closed paths around pt and
// whether pt lies exactly on an edge. Coordinates must stay below 2^30 in
// magnitude so that the cross products fit in int64.
func winding(pt clip.Point64, ps clip.Paths64) (wn int, on bool) {
	for _, p := range ps {
		n := len(p)
		if n < 3 {
			continue
		}
		for i := 0; i < n; i++ {
			a, b := p[i], p[(i+1)%n]
			ax, ay := a.X-pt.X, a.Y-pt.Y
			bx, by := b.X-pt.X, b.Y-pt.Y
			cr := ax*by - ay*bx
			if cr == 0 && min(ax, bx) <= 0 && max(ax, bx) >= 0 && min(ay, by) <= 0 && max(ay, by) >= 0 {
				return 0, true
			}
			if ay <= 0 {
				if by > 0 && cr > 0 {
					wn++
				}
			} else if by <= 0 && cr < 0 {
				wn--
			}
		}
	}
	return wn, false
}

func maxAbsCoord(sets ...clip.Paths64) int64 {
	var m int64
	for _, ps := range sets {
		for _, p := range ps {
			for _, pt := range p {
				if pt.X > m {
					m = pt.X
				}
				if -pt.X > m {
					m = -pt.X
				}
				if pt.Y > m {
					m = pt.Y
				}
				if -pt.Y > m {
					m = -pt.Y
				}
			}
		}
	}
	return m
}

// regionDiff compares solutions a and b (closed paths) as regions. inClosed
// and inOpen are the input paths of the operation. It returns a description
// of the first disagreement, or "".
func regionDiff(a, b clip.Paths64, inClosed, inOpen clip.Paths64, seed uint64) (string, int) {
	if maxAbsCoord(a, b, inClosed, inOpen) >= 1<<30 {
		return "", 0 // exact arithmetic not guaranteed: not judged
	}
	band := append(edgesOf(inClosed, true), edgesOf(inOpen, false)...)
	var samples []clip.Point64
	addSamples := func(ps clip.Paths64) {
		for _, s := range edgesOf(ps, true) {
			mx, my := (s.a.X+s.b.X)/2, (s.a.Y+s.b.Y)/2
			dx, dy := float64(s.b.X-s.a.X), float64(s.b.Y-s.a.Y)
			l := math.Hypot(dx, dy)
			if l == 0 {
				continue
			}
			nx, ny := -dy/l, dx/l
			for _, k := range []float64{3.2, -3.2, 6, -6} {
				samples = append(samples, clip.Point64{X: mx + int64(math.Round(nx*k)), Y: my + int64(math.Round(ny*k))})
			}
		}
	}
	addSamples(a)
	addSamples(b)
	// random points of the bounding box
	r := rand.New(rand.NewPCG(seed, 77))
	var lox, loy, hix, hiy int64
	first := true
	for _, ps := range []clip.Paths64{inClosed, a, b} {
		for _, p := range ps {
			for _, pt := range p {
				if first {
					lox, hix, loy, hiy = pt.X, pt.X, pt.Y, pt.Y
					first = false
				}
				lox, hix = min(lox, pt.X), max(hix, pt.X)
				loy, hiy = min(loy, pt.Y), max(hiy, pt.Y)
			}
		}
	}
	if !first {
		for i := 0; i < 24; i++ {
			samples = append(samples, clip.Point64{X: lox + r.Int64N(hix-lox+1), Y: loy + r.Int64N(hiy-loy+1)})
		}
	}
	judged := 0
	for _, pt := range samples {
		if nearAny(pt, band, 2.5) {
			continue
		}
		wa, ona := winding(pt, a)
		wb, onb := winding(pt, b)
		if ona || onb {
			continue
		}
		judged++
		if (wa != 0) != (wb != 0) {
			return fmt.Sprintf("point (%d,%d), more than 2.5 units from every input edge, has winding %d in the observed solution and %d in the reference solution", pt.X, pt.Y, wa, wb), judged
		}
	}
	return "", judged
}

// openDiff compares two open-path solutions as point sets: every sample of
// one must lie within 2.5 units of the other, unless it lies in the rounding
// band of a closed input edge.
func openDiff(a, b clip.Paths64, inClosed clip.Paths64) string {
	if maxAbsCoord(a, b, inClosed) >= 1<<30 {
		return ""
	}
	band := edgesOf(inClosed, true)
	check := func(x, y clip.Paths64, xn, yn string) string {
		ys := edgesOf(y, false)
		for _, s := range edgesOf(x, false) {
			for _, pt := range []clip.Point64{s.a, s.b, {X: (s.a.X + s.b.X) / 2, Y: (s.a.Y + s.b.Y) / 2}} {
				if nearAny(pt, band, 2.5) {
					continue
				}
				if !nearAny(pt, ys, 2.5) {
					return fmt.Sprintf("point (%d,%d) of the %s open solution is farther than 2.5 units from the %s open solution", pt.X, pt.Y, xn, yn)
				}
			}
		}
		return ""
	}
	if d := check(a, b, "observed", "reference"); d != "" {
		return d
	}
	return check(b, a, "reference", "observed")
}

func toInt(p clip.PathsD, scale float64) clip.Paths64 {
	out := make(clip.Paths64, len(p))
	for i, path := range p {
		q := make(clip.Path64, len(path))
		for j, pt := range path {
			q[j] = clip.Point64{X: int64(math.Round(pt.X * scale)), Y: int64(math.Round(pt.Y * scale))}
		}
		out[i] = q
	}
	return out
}

// coincidentEdges reports whether two distinct input edges are collinear and
// overlap in more than a point (exact integer arithmetic).
func coincidentEdges(sets ...clip.Paths64) bool {
	var es []seg
	for _, ps := range sets {
		es = append(es, edgesOf(ps, true)...)
	}
	if maxAbsCoord(sets...) >= 1<<30 {
		return false
	}
	for i := range es {
		a := es[i]
		if a.a == a.b {
			continue
		}
		for j := i + 1; j < len(es); j++ {
			b := es[j]
			if b.a == b.b {
				continue
			}
			dx, dy := a.b.X-a.a.X, a.b.Y-a.a.Y
			if dx*(b.a.Y-a.a.Y)-dy*(b.a.X-a.a.X) != 0 || dx*(b.b.Y-a.a.Y)-dy*(b.b.X-a.a.X) != 0 {
				continue
			}
			// collinear: compare the projections on the dominant axis
			var a0, a1, b0, b1 int64
			if absI(dx) >= absI(dy) {
				a0, a1, b0, b1 = a.a.X, a.b.X, b.a.X, b.b.X
			} else {
				a0, a1, b0, b1 = a.a.Y, a.b.Y, b.a.Y, b.b.Y
			}
			if a0 > a1 {
				a0, a1 = a1, a0
			}
			if b0 > b1 {
				b0, b1 = b1, b0
			}
			if max(a0, b0) < min(a1, b1) {
				return true
			}
		}
	}
	return false
}

func absI(v int64) int64 {
	if v < 0 {
		return -v
	}
	return v
}
