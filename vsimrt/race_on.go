//go:build race

package vsimrt

import (
	"runtime"
	"unsafe"
)

// RaceBuild reports whether the binary carries the race detector.
const RaceBuild = true

func raceDisable()                 { runtime.RaceDisable() }
func raceEnable()                  { runtime.RaceEnable() }
func raceAcquire(p unsafe.Pointer) { runtime.RaceAcquire(p) }
func raceRelease(p unsafe.Pointer) { runtime.RaceReleaseMerge(p) }

// RaceErrors is the number of race reports printed so far by this process.
func RaceErrors() int { return runtime.RaceErrors() }
