module vsimrt

go 1.22
