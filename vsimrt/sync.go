package vsimrt

import (
	"unsafe"
)

// Simulator-aware stand-ins for the sync primitives. The instrumenter swaps
// the type names in the scratch copies (sync.Pool -> vsimrt.Pool, ...).
// Blocking becomes "yield until available"; every primitive carries the same
// acquire/release annotations for the race detector as the real one, so
// legitimate synchronisation through it is not reported and nothing else is
// hidden.

// ---- Pool ---------------------------------------------------------------

const poolCap = 32

type poolItem struct {
	v     any
	token *byte // race-annotation address of this item
	owner int   // task that put it
	used  bool
}

// Pool replaces sync.Pool. Which object Get returns is decided by the
// simulator's pool PRNG: a fresh New() object or any previously Put object,
// biased towards the one most recently put by another task.
type Pool struct {
	New func() any

	items [poolCap]poolItem
	n     int
	reg   bool
}

// every pool that was ever used, so that a run can start from empty pools
// (a run must be a pure function of its script, not of the runs before it)
var allPools [4096]*Pool
var nPools int

//go:norace
func (p *Pool) register() {
	if !p.reg {
		p.reg = true
		if nPools < len(allPools) {
			allPools[nPools] = p
			nPools++
		}
	}
}

// ResetPools empties every pool.
//
//go:norace
func ResetPools() {
	resetPending()
	for i := 0; i < nPools; i++ {
		p := allPools[i]
		for j := range p.items {
			p.items[j] = poolItem{}
		}
		p.n = 0
	}
}

// PoolStats counts what the pools did in this process (reset by the harness).
type PoolStatsT struct {
	Gets, Puts, Fresh, Recycled, CrossTask int64
}

var PoolStats PoolStatsT

var poolRng uint64
var poolFreshPermille uint64 = 250

// SeedPools sets the PRNG state that decides pool behaviour and the per-mille
// probability that Get ignores the stored objects and calls New.
//
//go:norace
func SeedPools(seed uint64, freshPermille int) {
	ResetPools()
	poolRng = seed*0x9E3779B97F4A7C15 + 0x1234567
	if freshPermille < 0 {
		freshPermille = 0
	}
	poolFreshPermille = uint64(freshPermille)
}

//go:norace
func ResetPoolStats() PoolStatsT {
	p := PoolStats
	PoolStats = PoolStatsT{}
	return p
}

//go:norace
func poolRand() uint64 {
	poolRng += 0x9E3779B97F4A7C15
	z := poolRng
	z = (z ^ (z >> 30)) * 0xBF58476D1CE4E5B9
	z = (z ^ (z >> 27)) * 0x94D049BB133111EB
	return z ^ (z >> 31)
}

//go:norace
func (p *Pool) take() (any, *byte, bool) {
	p.register()
	PoolStats.Gets++
	if p.n == 0 || poolRand()%1000 < poolFreshPermille {
		PoolStats.Fresh++
		return nil, nil, false
	}
	me := CurrentTask()
	// prefer the most recently put item of another task
	idx := -1
	if poolRand()%4 != 0 {
		for i := p.n - 1; i >= 0; i-- {
			if p.items[i].owner != me {
				idx = i
				break
			}
		}
	}
	if idx < 0 {
		idx = int(poolRand() % uint64(p.n))
	}
	it := p.items[idx]
	p.items[idx] = p.items[p.n-1]
	p.items[p.n-1] = poolItem{}
	p.n--
	PoolStats.Recycled++
	if it.owner != me {
		PoolStats.CrossTask++
	}
	return it.v, it.token, true
}

//go:norace
func (p *Pool) store(x any, tok *byte) bool {
	p.register()
	PoolStats.Puts++
	if p.n == poolCap {
		// drop a random stored item (the real pool may drop anything, any time)
		idx := int(poolRand() % poolCap)
		p.items[idx] = p.items[p.n-1]
		p.n--
	}
	p.items[p.n] = poolItem{v: x, token: tok, owner: CurrentTask()}
	p.n++
	return true
}

// Get mirrors sync.Pool.Get.
func (p *Pool) Get() any {
	YS(SitePrimBase + 2)
	v, tok, ok := p.take()
	if ok {
		raceAcquire(unsafe.Pointer(tok))
		YS(SitePrimBase + 3)
		return v
	}
	YS(SitePrimBase + 3)
	if p.New != nil {
		// the yield sites passed inside New must not count: the number of
		// steps an operation takes (and with it the step budget) would
		// otherwise depend on whether the pool recycled or not
		s0 := stepMark()
		v := p.New()
		stepRewind(s0)
		return v
	}
	return nil
}

//go:norace
func stepMark() int64 {
	if t := cur; t != nil {
		return t.steps
	}
	return 0
}

//go:norace
func stepRewind(s0 int64) {
	if t := cur; t != nil && t.steps > s0 {
		t.steps = s0
	}
}

// Put mirrors sync.Pool.Put.
func (p *Pool) Put(x any) {
	if x == nil {
		return
	}
	YS(SitePrimBase + 4)
	tok := new(byte)
	raceRelease(unsafe.Pointer(tok))
	p.store(x, tok)
	YS(SitePrimBase + 5)
}

// ---- Mutex / RWMutex ----------------------------------------------------

// Mutex replaces sync.Mutex.
type Mutex struct {
	locked bool
	tok    byte
}

//go:norace
func (m *Mutex) tryLock() bool {
	if m.locked {
		return false
	}
	m.locked = true
	return true
}

//go:norace
func (m *Mutex) unlock() bool {
	if !m.locked {
		return false
	}
	m.locked = false
	return true
}

func block(site uint32) {
	t := getCur()
	if t == nil {
		// outside simulation nothing else can make progress
		panic("vsimrt: simulated primitive would block outside simulation")
	}
	t.yield(site, WhyBlocked, nil)
}

func (m *Mutex) Lock() {
	YS(SitePrimBase + 6)
	for !m.tryLock() {
		block(SitePrimBase + 7)
	}
	raceAcquire(unsafe.Pointer(&m.tok))
}

func (m *Mutex) TryLock() bool {
	YS(SitePrimBase + 6)
	if m.tryLock() {
		raceAcquire(unsafe.Pointer(&m.tok))
		return true
	}
	return false
}

func (m *Mutex) Unlock() {
	raceRelease(unsafe.Pointer(&m.tok))
	if !m.unlock() {
		panic("sync: unlock of unlocked mutex")
	}
	notify()
	YS(SitePrimBase + 8)
}

// RWMutex replaces sync.RWMutex.
type RWMutex struct {
	writer  bool
	readers int
	wtok    byte
	rtok    byte
}

//go:norace
func (m *RWMutex) tryW() bool {
	if m.writer || m.readers > 0 {
		return false
	}
	m.writer = true
	return true
}

//go:norace
func (m *RWMutex) tryR() bool {
	if m.writer {
		return false
	}
	m.readers++
	return true
}

//go:norace
func (m *RWMutex) relW() bool {
	if !m.writer {
		return false
	}
	m.writer = false
	return true
}

//go:norace
func (m *RWMutex) relR() bool {
	if m.readers <= 0 {
		return false
	}
	m.readers--
	return true
}

func (m *RWMutex) Lock() {
	YS(SitePrimBase + 9)
	for !m.tryW() {
		block(SitePrimBase + 10)
	}
	raceAcquire(unsafe.Pointer(&m.wtok))
	raceAcquire(unsafe.Pointer(&m.rtok))
}

func (m *RWMutex) Unlock() {
	raceRelease(unsafe.Pointer(&m.wtok))
	if !m.relW() {
		panic("sync: Unlock of unlocked RWMutex")
	}
	notify()
	YS(SitePrimBase + 11)
}

func (m *RWMutex) RLock() {
	YS(SitePrimBase + 12)
	for !m.tryR() {
		block(SitePrimBase + 13)
	}
	raceAcquire(unsafe.Pointer(&m.wtok))
}

func (m *RWMutex) TryLock() bool {
	YS(SitePrimBase + 9)
	if m.tryW() {
		raceAcquire(unsafe.Pointer(&m.wtok))
		raceAcquire(unsafe.Pointer(&m.rtok))
		return true
	}
	return false
}

func (m *RWMutex) TryRLock() bool {
	YS(SitePrimBase + 12)
	if m.tryR() {
		raceAcquire(unsafe.Pointer(&m.wtok))
		return true
	}
	return false
}

type rlocker RWMutex

func (r *rlocker) Lock()   { (*RWMutex)(r).RLock() }
func (r *rlocker) Unlock() { (*RWMutex)(r).RUnlock() }

// RLocker mirrors sync.RWMutex.RLocker.
func (m *RWMutex) RLocker() interface {
	Lock()
	Unlock()
} {
	return (*rlocker)(m)
}

func (m *RWMutex) RUnlock() {
	raceRelease(unsafe.Pointer(&m.rtok))
	if !m.relR() {
		panic("sync: RUnlock of unlocked RWMutex")
	}
	notify()
	YS(SitePrimBase + 14)
}

// ---- Once ---------------------------------------------------------------

// Once replaces sync.Once.
type Once struct {
	state int // 0 not run, 1 running, 2 done
	tok   byte
}

//go:norace
func (o *Once) enter() int {
	s := o.state
	if s == 0 {
		o.state = 1
	}
	return s
}

//go:norace
func (o *Once) finish() { o.state = 2 }

func (o *Once) Do(f func()) {
	YS(SitePrimBase + 15)
	for {
		switch o.enter() {
		case 2:
			raceAcquire(unsafe.Pointer(&o.tok))
			return
		case 0:
			defer func() {
				raceRelease(unsafe.Pointer(&o.tok))
				o.finish()
				notify()
				YS(SitePrimBase + 16)
			}()
			f()
			return
		default:
			block(SitePrimBase + 17)
		}
	}
}

// ---- WaitGroup ----------------------------------------------------------

// WaitGroup replaces sync.WaitGroup.
type WaitGroup struct {
	n   int
	tok byte
}

//go:norace
func (w *WaitGroup) add(d int) int {
	w.n += d
	return w.n
}

//go:norace
func (w *WaitGroup) zero() bool { return w.n == 0 }

func (w *WaitGroup) Add(delta int) {
	if delta < 0 {
		raceRelease(unsafe.Pointer(&w.tok))
	}
	if w.add(delta) < 0 {
		panic("sync: negative WaitGroup counter")
	}
	notify()
	YS(SitePrimBase + 18)
}

func (w *WaitGroup) Done() { w.Add(-1) }

func (w *WaitGroup) Go(f func()) {
	w.Add(1)
	Go(func() {
		defer w.Done()
		f()
	})
}

func (w *WaitGroup) Wait() {
	YS(SitePrimBase + 19)
	for !w.zero() {
		block(SitePrimBase + 20)
	}
	raceAcquire(unsafe.Pointer(&w.tok))
}
