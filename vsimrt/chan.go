package vsimrt

import (
	"runtime"
	"unsafe"
)

// Channel operations of the code under test. The instrumenter rewrites
//
//	ch <- v            ->  vsimrt.Send(ch, v)
//	<-ch               ->  vsimrt.Recv(ch)
//	v, ok := <-ch      ->  v, ok := vsimrt.Recv2(ch)
//	for v := range ch  ->  a Recv2 loop
//	select { ...; default: ... }  ->  an if/else chain of TryRecv / TrySend
//
// so that a task that would block in the Go runtime yields to the simulator
// instead. A select without default becomes a call of Select (end of this
// file). Buffered channels keep using the real channel (non-blocking
// attempts), hence the real happens-before edges. An unbuffered send cannot
// complete by polling (no receiver is ever really parked), so it goes through
// a rendezvous table with explicit acquire/release annotations in both
// directions, like the real operation; every receive looks into the table
// first.

type pendingSend struct {
	ch    unsafe.Pointer
	val   any
	state int // 0 free, 1 offered, 2 taken
	tok   *byte
	back  *byte
}

var pend []pendingSend

func chanPtr[T any](ch chan<- T) unsafe.Pointer { return *(*unsafe.Pointer)(unsafe.Pointer(&ch)) }
func chanPtrR[T any](ch <-chan T) unsafe.Pointer {
	return *(*unsafe.Pointer)(unsafe.Pointer(&ch))
}

//go:norace
func offer(p unsafe.Pointer, v any, tok, back *byte) int {
	for i := range pend {
		if pend[i].state == 0 {
			pend[i] = pendingSend{ch: p, val: v, state: 1, tok: tok, back: back}
			return i
		}
	}
	pend = append(pend, pendingSend{ch: p, val: v, state: 1, tok: tok, back: back})
	return len(pend) - 1
}

//go:norace
func taken(i int) bool {
	if pend[i].state == 2 {
		pend[i] = pendingSend{}
		return true
	}
	return false
}

// withdraw removes an offer nobody took (the sender is being torn down).
//
//go:norace
func withdraw(i int) bool {
	if i < len(pend) && pend[i].state == 1 {
		pend[i] = pendingSend{}
		return true
	}
	return false
}

//go:norace
func take(p unsafe.Pointer) (any, *byte, *byte, bool) {
	for i := range pend {
		if pend[i].state == 1 && pend[i].ch == p {
			v, tok, back := pend[i].val, pend[i].tok, pend[i].back
			pend[i].val = nil
			pend[i].state = 2
			return v, tok, back, true
		}
	}
	return nil, nil, nil, false
}

// resetPending is called at the start of a run. Offers of background tasks
// that are still parked in a Send (they survive from run to run) stay.
//
//go:norace
func resetPending() {}

func unbox[T any](v any) T {
	if v == nil { // a nil interface value was sent
		var z T
		return z
	}
	return v.(T)
}

// Send mirrors `ch <- v`.
func Send[T any](ch chan<- T, v T) {
	t := getCur()
	if t == nil {
		ch <- v
		return
	}
	YS(SitePrimBase + 21)
	if ch != nil && cap(ch) > 0 {
		for {
			select {
			case ch <- v: // panics if the channel is closed, like the real thing
				notify()
				YS(SitePrimBase + 22)
				return
			default:
				block(SitePrimBase + 23)
			}
		}
	}
	if ch == nil {
		for {
			block(SitePrimBase + 23)
		}
	}
	tok, back := new(byte), new(byte)
	raceRelease(unsafe.Pointer(tok))
	i := offer(chanPtr(ch), v, tok, back)
	notify()
	done := false
	defer func() {
		if !done {
			withdraw(i) // torn down while waiting: nobody must receive this value later
		}
	}()
	for !taken(i) {
		// a send on a closed channel panics; a receiver really parked in the
		// Go runtime (code the rewriter did not reach) is served too
		select {
		case ch <- v:
			if withdraw(i) {
				done = true
				notify()
				YS(SitePrimBase + 22)
				return
			}
		default:
		}
		block(SitePrimBase + 23)
	}
	done = true
	raceAcquire(unsafe.Pointer(back))
	YS(SitePrimBase + 22)
}

// TrySend mirrors the send case of a select with default.
func TrySend[T any](ch chan<- T, v T) bool {
	t := getCur()
	if t == nil || ch == nil || cap(ch) > 0 {
		select {
		case ch <- v:
			if t != nil {
				notify()
			}
			return true
		default:
			return false
		}
	}
	// unbuffered: it succeeds only if a receiver is waiting right now, and
	// simulated receivers never park in the runtime; a simulated receiver
	// that is polling will find the offer when it runs next, which is as if
	// it had not been ready yet. Only a really parked receiver is served.
	select {
	case ch <- v:
		return true
	default:
		return false
	}
}

// tryRecv makes one attempt: the rendezvous table first, then the real channel.
func tryRecv[T any](ch <-chan T) (T, bool, bool) {
	var zero T
	if ch == nil {
		return zero, false, false
	}
	if v, tok, back, ok := take(chanPtrR(ch)); ok {
		raceAcquire(unsafe.Pointer(tok))
		raceRelease(unsafe.Pointer(back))
		notify()
		return unbox[T](v), true, true
	}
	select {
	case v, ok := <-ch:
		notify()
		return v, ok, true
	default:
	}
	return zero, false, false
}

// TryRecv mirrors the receive case of a select with default: value, the "ok"
// of a two-value receive, and whether the case was taken.
func TryRecv[T any](ch <-chan T) (T, bool, bool) {
	if getCur() == nil {
		select {
		case v, ok := <-ch:
			return v, ok, true
		default:
			var zero T
			return zero, false, false
		}
	}
	return tryRecv(ch)
}

// Recv2 mirrors `v, ok := <-ch`.
func Recv2[T any](ch <-chan T) (T, bool) {
	t := getCur()
	if t == nil {
		v, ok := <-ch
		return v, ok
	}
	YS(SitePrimBase + 24)
	for {
		if v, ok, got := tryRecv(ch); got {
			YS(SitePrimBase + 25)
			return v, ok
		}
		block(SitePrimBase + 26)
	}
}

// Recv mirrors `<-ch`.
func Recv[T any](ch <-chan T) T {
	v, _ := Recv2(ch)
	return v
}

// Blocking select. The instrumenter rewrites
//
//	select { case ch <- v: A; case x, ok := <-ch2: B }      (no default)
//
// into
//
//	switch { default:
//		vsimC0 := vsimrt.SendCase(ch, v)
//		vsimC1 := vsimrt.RecvCase(ch2)
//		switch vsimrt.Select(vsimC0, vsimC1) {
//		case 0: A
//		case 1: x, ok := vsimC1.V, vsimC1.Ok; B
//		}
//	}
//
// Channel and value expressions are evaluated once, in source order, like the
// real statement. Select polls the cases and yields as "blocked" between
// polls; of several ready cases the first in source order fires (one of the
// behaviours the real select may show). A send case on an unbuffered channel
// places an offer in the rendezvous table for as long as the select waits and
// withdraws it when another case fires or the task is torn down.

// SelCase is one communication clause of a blocking select.
type SelCase interface {
	selTaken() bool
	selTry() bool
	selTryReal() bool
	selCleanup()
}

type SendCaseT[T any] struct {
	ch        chan<- T
	v         T
	idx       int
	tok, back *byte
}

func SendCase[T any](ch chan<- T, v T) *SendCaseT[T] { return &SendCaseT[T]{ch: ch, v: v, idx: -1} }

func (c *SendCaseT[T]) selTaken() bool {
	if c.idx >= 0 && taken(c.idx) {
		c.idx = -1
		raceAcquire(unsafe.Pointer(c.back))
		return true
	}
	return false
}

func (c *SendCaseT[T]) selTry() bool {
	if c.ch == nil {
		return false
	}
	if cap(c.ch) > 0 {
		select {
		case c.ch <- c.v: // panics if the channel is closed, like the real thing
			notify()
			return true
		default:
			return false
		}
	}
	if c.idx < 0 {
		// a really parked receiver (code the rewriter did not reach) is served at once
		select {
		case c.ch <- c.v:
			notify()
			return true
		default:
		}
		c.tok, c.back = new(byte), new(byte)
		raceRelease(unsafe.Pointer(c.tok))
		c.idx = offer(chanPtr(c.ch), c.v, c.tok, c.back)
		notify()
		return false
	}
	select {
	case c.ch <- c.v:
		if withdraw(c.idx) {
			c.idx = -1
			notify()
			return true
		}
	default:
	}
	return false
}

func (c *SendCaseT[T]) selTryReal() bool {
	select {
	case c.ch <- c.v:
		return true
	default:
		return false
	}
}

func (c *SendCaseT[T]) selCleanup() {
	if c.idx >= 0 {
		withdraw(c.idx)
		c.idx = -1
	}
}

type RecvCaseT[T any] struct {
	ch <-chan T
	V  T
	Ok bool
}

func RecvCase[T any](ch <-chan T) *RecvCaseT[T] { return &RecvCaseT[T]{ch: ch} }

func (c *RecvCaseT[T]) selTaken() bool { return false }
func (c *RecvCaseT[T]) selTry() bool {
	v, ok, got := tryRecv(c.ch)
	if got {
		c.V, c.Ok = v, ok
	}
	return got
}
func (c *RecvCaseT[T]) selTryReal() bool {
	select {
	case v, ok := <-c.ch:
		c.V, c.Ok = v, ok
		return true
	default:
		return false
	}
}
func (c *RecvCaseT[T]) selCleanup() {}

// Select mirrors a select statement without default: it returns the index of
// the case that fired.
func Select(cs ...SelCase) int {
	if getCur() == nil {
		// outside simulation: real non-blocking attempts until one succeeds
		for {
			for i, c := range cs {
				if c.selTryReal() {
					return i
				}
			}
			runtime.Gosched()
		}
	}
	YS(SitePrimBase + 30)
	defer func() {
		for _, c := range cs {
			c.selCleanup() // offers nobody took: withdrawn when another case fired or on tear-down
		}
	}()
	for {
		for i, c := range cs {
			if c.selTaken() {
				YS(SitePrimBase + 31)
				return i
			}
		}
		for i, c := range cs {
			if c.selTry() {
				// the other offers are withdrawn before anybody else runs
				for _, o := range cs {
					o.selCleanup()
				}
				YS(SitePrimBase + 31)
				return i
			}
		}
		block(SitePrimBase + 32)
	}
}
