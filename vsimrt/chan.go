package vsimrt

import "unsafe"

// Channel operations of the code under test. The instrumenter rewrites
//
//	ch <- v            ->  vsimrt.Send(ch, v)
//	<-ch               ->  vsimrt.Recv(ch)
//	v, ok := <-ch      ->  v, ok := vsimrt.Recv2(ch)
//	for v := range ch  ->  a Recv2 loop
//	select { ...; default: ... }  ->  an if/else chain of TryRecv / TrySend
//
// so that a task that would block in the Go runtime yields to the simulator
// instead. (A select without default is not handled: the instrumenter stops
// with exit 2.) Buffered channels keep using the real channel (non-blocking
// attempts), hence the real happens-before edges. An unbuffered send cannot
// complete by polling (no receiver is ever really parked), so it goes through
// a rendezvous table with explicit acquire/release annotations in both
// directions, like the real operation; every receive looks into the table
// first.

type pendingSend struct {
	ch    unsafe.Pointer
	val   any
	state int // 0 free, 1 offered, 2 taken
	tok   *byte
	back  *byte
}

var pend []pendingSend

func chanPtr[T any](ch chan<- T) unsafe.Pointer { return *(*unsafe.Pointer)(unsafe.Pointer(&ch)) }
func chanPtrR[T any](ch <-chan T) unsafe.Pointer {
	return *(*unsafe.Pointer)(unsafe.Pointer(&ch))
}

//go:norace
func offer(p unsafe.Pointer, v any, tok, back *byte) int {
	for i := range pend {
		if pend[i].state == 0 {
			pend[i] = pendingSend{ch: p, val: v, state: 1, tok: tok, back: back}
			return i
		}
	}
	pend = append(pend, pendingSend{ch: p, val: v, state: 1, tok: tok, back: back})
	return len(pend) - 1
}

//go:norace
func taken(i int) bool {
	if pend[i].state == 2 {
		pend[i] = pendingSend{}
		return true
	}
	return false
}

// withdraw removes an offer nobody took (the sender is being torn down).
//
//go:norace
func withdraw(i int) bool {
	if i < len(pend) && pend[i].state == 1 {
		pend[i] = pendingSend{}
		return true
	}
	return false
}

//go:norace
func take(p unsafe.Pointer) (any, *byte, *byte, bool) {
	for i := range pend {
		if pend[i].state == 1 && pend[i].ch == p {
			v, tok, back := pend[i].val, pend[i].tok, pend[i].back
			pend[i].val = nil
			pend[i].state = 2
			return v, tok, back, true
		}
	}
	return nil, nil, nil, false
}

// resetPending is called at the start of a run. Offers of background tasks
// that are still parked in a Send (they survive from run to run) stay.
//
//go:norace
func resetPending() {}

func unbox[T any](v any) T {
	if v == nil { // a nil interface value was sent
		var z T
		return z
	}
	return v.(T)
}

// Send mirrors `ch <- v`.
func Send[T any](ch chan<- T, v T) {
	t := getCur()
	if t == nil {
		ch <- v
		return
	}
	YS(SitePrimBase + 21)
	if ch != nil && cap(ch) > 0 {
		for {
			select {
			case ch <- v: // panics if the channel is closed, like the real thing
				notify()
				YS(SitePrimBase + 22)
				return
			default:
				block(SitePrimBase + 23)
			}
		}
	}
	if ch == nil {
		for {
			block(SitePrimBase + 23)
		}
	}
	tok, back := new(byte), new(byte)
	raceRelease(unsafe.Pointer(tok))
	i := offer(chanPtr(ch), v, tok, back)
	notify()
	done := false
	defer func() {
		if !done {
			withdraw(i) // torn down while waiting: nobody must receive this value later
		}
	}()
	for !taken(i) {
		// a send on a closed channel panics; a receiver really parked in the
		// Go runtime (code the rewriter did not reach) is served too
		select {
		case ch <- v:
			if withdraw(i) {
				done = true
				notify()
				YS(SitePrimBase + 22)
				return
			}
		default:
		}
		block(SitePrimBase + 23)
	}
	done = true
	raceAcquire(unsafe.Pointer(back))
	YS(SitePrimBase + 22)
}

// TrySend mirrors the send case of a select with default.
func TrySend[T any](ch chan<- T, v T) bool {
	t := getCur()
	if t == nil || ch == nil || cap(ch) > 0 {
		select {
		case ch <- v:
			if t != nil {
				notify()
			}
			return true
		default:
			return false
		}
	}
	// unbuffered: it succeeds only if a receiver is waiting right now, and
	// simulated receivers never park in the runtime; a simulated receiver
	// that is polling will find the offer when it runs next, which is as if
	// it had not been ready yet. Only a really parked receiver is served.
	select {
	case ch <- v:
		return true
	default:
		return false
	}
}

// tryRecv makes one attempt: the rendezvous table first, then the real channel.
func tryRecv[T any](ch <-chan T) (T, bool, bool) {
	var zero T
	if ch == nil {
		return zero, false, false
	}
	if v, tok, back, ok := take(chanPtrR(ch)); ok {
		raceAcquire(unsafe.Pointer(tok))
		raceRelease(unsafe.Pointer(back))
		notify()
		return unbox[T](v), true, true
	}
	select {
	case v, ok := <-ch:
		notify()
		return v, ok, true
	default:
	}
	return zero, false, false
}

// TryRecv mirrors the receive case of a select with default: value, the "ok"
// of a two-value receive, and whether the case was taken.
func TryRecv[T any](ch <-chan T) (T, bool, bool) {
	if getCur() == nil {
		select {
		case v, ok := <-ch:
			return v, ok, true
		default:
			var zero T
			return zero, false, false
		}
	}
	return tryRecv(ch)
}

// Recv2 mirrors `v, ok := <-ch`.
func Recv2[T any](ch <-chan T) (T, bool) {
	t := getCur()
	if t == nil {
		v, ok := <-ch
		return v, ok
	}
	YS(SitePrimBase + 24)
	for {
		if v, ok, got := tryRecv(ch); got {
			YS(SitePrimBase + 25)
			return v, ok
		}
		block(SitePrimBase + 26)
	}
}

// Recv mirrors `<-ch`.
func Recv[T any](ch <-chan T) T {
	v, _ := Recv2(ch)
	return v
}
