package vsimrt

import "unsafe"

// Channel operations of the code under test. The instrumenter rewrites
//
//	ch <- v            ->  vsimrt.Send(ch, v)
//	<-ch               ->  vsimrt.Recv(ch)
//	v, ok := <-ch      ->  v, ok := vsimrt.Recv2(ch)
//	for v := range ch  ->  for { v, ok := vsimrt.Recv2(ch); if !ok { break }; ... }
//	select without default -> polling loop with vsimrt.SelectIdle() in a default case
//
// so that a task that would block in the Go runtime yields to the simulator
// instead. Buffered channels keep using the real channel (non-blocking
// attempts), hence the real happens-before edges. An unbuffered send cannot
// complete by polling (no receiver is ever really parked), so it goes through
// a rendezvous table with explicit acquire/release annotations in both
// directions, like the real operation.


type pendingSend struct {
	ch    unsafe.Pointer
	val   any
	state int // 0 free, 1 offered, 2 taken
	tok   *byte
	back  *byte
}

var pend []pendingSend

func chanPtr[T any](ch chan<- T) unsafe.Pointer { return *(*unsafe.Pointer)(unsafe.Pointer(&ch)) }
func chanPtrR[T any](ch <-chan T) unsafe.Pointer {
	return *(*unsafe.Pointer)(unsafe.Pointer(&ch))
}

//go:norace
func offer(p unsafe.Pointer, v any, tok, back *byte) int {
	for i := range pend {
		if pend[i].state == 0 {
			pend[i] = pendingSend{ch: p, val: v, state: 1, tok: tok, back: back}
			return i
		}
	}
	pend = append(pend, pendingSend{ch: p, val: v, state: 1, tok: tok, back: back})
	return len(pend) - 1
}

//go:norace
func taken(i int) bool {
	if pend[i].state == 2 {
		pend[i] = pendingSend{}
		return true
	}
	return false
}

//go:norace
func take(p unsafe.Pointer) (any, *byte, *byte, bool) {
	for i := range pend {
		if pend[i].state == 1 && pend[i].ch == p {
			v, tok, back := pend[i].val, pend[i].tok, pend[i].back
			pend[i].val = nil
			pend[i].state = 2
			return v, tok, back, true
		}
	}
	return nil, nil, nil, false
}

//go:norace
func resetPending() {
	pend = pend[:0]
}

// Send mirrors `ch <- v`.
func Send[T any](ch chan<- T, v T) {
	t := getCur()
	if t == nil {
		ch <- v
		return
	}
	YS(SitePrimBase + 21)
	if ch != nil && cap(ch) > 0 {
		for {
			select {
			case ch <- v:
				YS(SitePrimBase + 22)
				return
			default:
				block(SitePrimBase + 23)
			}
		}
	}
	if ch == nil {
		for {
			block(SitePrimBase + 23)
		}
	}
	tok, back := new(byte), new(byte)
	raceRelease(unsafe.Pointer(tok))
	i := offer(chanPtr(ch), v, tok, back)
	if i < 0 {
		panic("vsimrt: too many pending unbuffered sends")
	}
	for !taken(i) {
		block(SitePrimBase + 23)
	}
	raceAcquire(unsafe.Pointer(back))
	YS(SitePrimBase + 22)
}

// Recv2 mirrors `v, ok := <-ch`.
func Recv2[T any](ch <-chan T) (T, bool) {
	t := getCur()
	if t == nil {
		v, ok := <-ch
		return v, ok
	}
	YS(SitePrimBase + 24)
	for {
		if ch != nil {
			if v, tok, back, ok := take(chanPtrR(ch)); ok {
				raceAcquire(unsafe.Pointer(tok))
				raceRelease(unsafe.Pointer(back))
				YS(SitePrimBase + 25)
				return v.(T), true
			}
			select {
			case v, ok := <-ch:
				YS(SitePrimBase + 25)
				return v, ok
			default:
			}
		}
		block(SitePrimBase + 26)
	}
}

// Recv mirrors `<-ch`.
func Recv[T any](ch <-chan T) T {
	v, _ := Recv2(ch)
	return v
}

// SelectIdle is the default case the instrumenter adds to a select without
// default: nothing is ready, let another task run.
func SelectIdle() {
	t := getCur()
	if t == nil {
		return
	}
	block(SitePrimBase + 27)
}
