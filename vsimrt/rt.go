// Package vsimrt is the runtime of the deterministic simulator ("vsim").
//
// The instrumenter (cmd/vsim-instrument) inserts calls to Y and YS into a
// scratch copy of the library under test and of its dependency; the harness
// (cmd/vsim) runs library calls as *tasks*: real goroutines of which exactly
// one is runnable at any time. Which task runs next, and for how many yield
// sites, is decided by a Chooser owned by the harness (a seeded PRNG or a
// recorded schedule) - never by the Go runtime.
//
// Race builds: every handoff between goroutines happens between
// runtime.RaceDisable and runtime.RaceEnable, so that the race detector sees
// no happens-before edge between two tasks (they look like goroutines that
// never synchronise, which is what independent library calls are), while the
// simulator still serialises them. All bookkeeping that is touched by more
// than one goroutine lives in //go:norace functions.
package vsimrt

import (
	"fmt"
	"os"
	"sync"
	"sync/atomic"
	"time"
)

// Why a segment ended.
const (
	WhySeg     = 0 // segment step count exhausted
	WhyShared  = 1 // shared-site countdown exhausted
	WhyBlocked = 2 // task waits for a simulated primitive
	WhyDone    = 3 // task function returned
	WhySpawn   = 4 // task started a child task (vsimrt.Go)
)

// Site id ranges (assigned by the instrumenter / harness).
const (
	SiteDepBase      = 1 << 20 // sites inside the instrumented dependency
	SiteCallbackBase = 1 << 24 // sites inside harness-supplied callbacks
	SitePrimBase     = 1 << 25 // sites inside vsimrt primitives (Pool, Mutex, ...)
)

// Diverged is the panic value used to unwind an operation that ran out of its
// step budget.
type Diverged struct{}

func (Diverged) Error() string { return "vsimrt: step budget exhausted" }

type killedT struct{}

// EscapedPanic is a panic that unwound a whole task.
type EscapedPanic struct {
	Task int
	Root bool
	Val  any
}

// IsKilled recognises the scheduler's kill signal (used to unwind tasks after
// a deadlock or an abort); harness code that recovers panics must re-raise it.
func IsKilled(r any) bool { _, ok := r.(killedT); return ok }

// Segment is one entry of the executed schedule.
type Segment struct {
	Task  int    `json:"t"`
	Steps int64  `json:"n"`
	Site  uint32 `json:"s,omitempty"`
	Why   uint8  `json:"w,omitempty"`
}

// Chooser decides the schedule.
type Chooser interface {
	// Next is given the ids of unfinished tasks in ascending order and, for
	// each, whether it last stopped blocked. It returns the task to run, the
	// maximal number of yield sites it may pass, and the maximal number of
	// shared sites it may pass (<=0: unlimited).
	Next(live []int, blocked []bool) (task int, steps int64, shared int64)
}

// Task is one simulated thread of control.
type Task struct {
	ID int

	steps      int64 // yield sites passed so far
	segEnd     int64 // absolute step count at which the segment ends
	opEnd      int64 // absolute step count at which the operation budget ends
	next       int64 // min(segEnd, opEnd)
	sharedLeft int64 // shared sites left in this segment (<=0: unlimited)
	sharedSeen int64
	opStart    int64

	wake    chan int
	s       *Sched
	blocked  bool
	done     bool
	killed   bool
	detached bool
	kids     []*Task // tasks started by this one since its operation began
}

type event struct {
	task  *Task
	why   uint8
	site  uint32
	child *Task
}

// Sched runs a set of tasks to completion under a Chooser.
type Sched struct {
	ch       Chooser
	tasks    []*Task
	back     chan event
	wg       sync.WaitGroup
	Trace    []Segment
	Deadlock bool
	// Killed: tasks were torn down (deadlock, crash, abort). Package-level
	// state of the code under test may be left half-way (a worker goroutine
	// gone, a lock held): the process should not be used for further runs.
	Killed  bool
	MaxSegs int // safety cap on the number of segments (0: none)
	// MaxTotalSteps caps the yield sites passed by all tasks of the run
	// together (0: none). Operations have their own step budget; this one
	// catches goroutines of the code under test that loop outside any
	// operation's budget. A run that hits it is Aborted: inconclusive.
	MaxTotalSteps int64
	totalSteps    int64
	Aborted  bool
	// Panics that escaped a task function. From a root task it is a harness
	// bug (library panics are caught around every operation); from a child
	// task (a goroutine started by the code under test) it is what would
	// crash the real process.
	Escaped []EscapedPanic
	mu      sync.Mutex
	nRoot   int
	crashed bool
	wake    bool
	sinceWake int
	graceLeft int

	Switches       int64
	SwitchesShared int64
	SwitchesDep    int64
	SwitchesCb     int64
}

const noLimit = int64(1) << 62
const maxSegment = int64(4_000_000)

var cur *Task // the task that is running; nil outside simulation

// progress is what the stall watchdog looks at. It is a PLAIN counter written
// and read in //go:norace functions on purpose: an atomic here would be real
// synchronisation executed by task goroutines (BeginOp runs on them) and
// would order every task's earlier accesses before every other task's later
// ones for the race detector.
var progress int64

//go:norace
func progressAdd() { progress++ }

//go:norace
func progressLoad() int64 { return progress }
var watchdogOnce sync.Once
var running atomic.Int32

// StallTimeout is the wall-clock time without any handoff after which the
// process gives up with SIM-STALL (exit 2). It is a guard against real
// blocking the instrumenter could not see; it never produces a verdict.
var StallTimeout = 180 * time.Second

func startWatchdog() {
	watchdogOnce.Do(func() {
		go func() {
			last := int64(-1)
			lastChange := time.Now()
			for {
				time.Sleep(2 * time.Second)
				if running.Load() == 0 {
					last = -1
					lastChange = time.Now()
					continue
				}
				p := progressLoad()
				if p != last {
					last = p
					lastChange = time.Now()
					continue
				}
				if time.Since(lastChange) > StallTimeout {
					fmt.Fprintf(os.Stderr, "SIM-STALL: no scheduler handoff for %v (a task is blocked or looping outside any yield site)\n", StallTimeout)
					fmt.Printf("SIM-STALL\n")
					os.Exit(2)
				}
			}
		}()
	})
}

// Tick tells the watchdog that the process is alive (called by the harness at
// the start of every run).
func Tick() { progressAdd() }

//go:norace
func setCur(t *Task) { cur = t }

//go:norace
func getCur() *Task { return cur }

//go:norace
func (t *Task) arm(steps, shared int64) {
	if steps <= 0 || steps > noLimit-t.steps {
		t.segEnd = noLimit
	} else {
		t.segEnd = t.steps + steps
	}
	t.sharedLeft = shared
	t.next = t.segEnd
	if t.opEnd < t.next {
		t.next = t.opEnd
	}
}

//go:norace
func (t *Task) stepsNow() int64 { return t.steps }

//go:norace
func (t *Task) isBlocked() bool { return t.blocked }

//go:norace
func (t *Task) isDone() bool { return t.done }

//go:norace
func (t *Task) setDone() { t.done = true }

// Y is an ordinary yield site.
//
//go:norace
func Y(site uint32) {
	t := cur
	if t == nil {
		return
	}
	t.steps++
	if t.steps >= t.next {
		t.slow(site, WhySeg)
	}
}

// YS is a shared-state yield site (placed before and after every statement
// that touches package-level state or a pool).
//
//go:norace
func YS(site uint32) {
	t := cur
	if t == nil {
		return
	}
	t.steps++
	t.sharedSeen++
	if t.sharedLeft > 0 {
		t.sharedLeft--
		if t.sharedLeft == 0 {
			t.slow(site, WhyShared)
			return
		}
	}
	if t.steps >= t.next {
		t.slow(site, WhySeg)
	}
}

//go:norace
func (t *Task) slow(site uint32, why uint8) {
	if t.killed {
		// the task is being torn down; code under test that recovers panics
		// must not get to run on (every further yield site raises it again)
		panic(killedT{})
	}
	if t.steps >= t.opEnd {
		// sticky until EndOp: an operation that recovers the panic (a worker
		// wrapper with recover(), say) must not run on without a budget
		panic(Diverged{})
	}
	t.yield(site, why, nil)
}

// yield parks the calling task and hands control to the scheduler.
//
//go:norace
func (t *Task) yield(site uint32, why uint8, child *Task) {
	if t.killed {
		// the task is being unwound: it must not park again
		panic(killedT{})
	}
	s := t.s
	t.blocked = why == WhyBlocked
	raceDisable()
	s.back <- event{task: t, why: why, site: site, child: child}
	code := <-t.wake
	raceEnable()
	if code != 1 {
		t.killed = true
		t.segEnd, t.opEnd, t.next = noLimit, noLimit, 0 // every yield site takes the slow path from now on
		panic(killedT{})
	}
}

// BeginOp starts a step budget for the operation the current task is about to
// run. Outside simulation it does nothing.
//
//go:norace
func BeginOp(budget int64) {
	progress++ // an operation starting is progress as far as the stall watchdog is concerned (plain counter, see above)
	t := cur
	if t == nil {
		return
	}
	t.opStart = t.steps
	t.kids = t.kids[:0]
	if budget <= 0 {
		t.opEnd = noLimit
	} else {
		t.opEnd = t.steps + budget
	}
	t.next = t.segEnd
	if t.opEnd < t.next {
		t.next = t.opEnd
	}
}

// EndOp ends the budget and returns the number of yield sites the operation
// passed.
//
//go:norace
func EndOp() int64 {
	t := cur
	if t == nil {
		return 0
	}
	t.opEnd = noLimit
	t.next = t.segEnd
	// the yield sites passed by the goroutines the operation started count
	// too: the same work is then reported as the same number of steps
	// whether the code under test did it on one goroutine or on several
	n := t.steps - t.opStart
	for _, k := range t.kids {
		n += k.familySteps()
	}
	t.kids = t.kids[:0]
	return n
}

//go:norace
func (t *Task) familySteps() int64 {
	n := t.steps
	for _, k := range t.kids {
		n += k.familySteps()
	}
	return n
}

//go:norace
func (t *Task) addKid(k *Task) {
	if len(t.kids) < 4096 {
		t.kids = append(t.kids, k)
	}
}

// CurrentTask returns the id of the running task, or -1.
//
//go:norace
func CurrentTask() int {
	t := cur
	if t == nil {
		return -1
	}
	return t.ID
}

// SharedSeen returns the number of shared sites the current task has passed.
//
//go:norace
func SharedSeen() int64 {
	t := cur
	if t == nil {
		return 0
	}
	return t.sharedSeen
}

// NewSched creates a scheduler.
func NewSched(ch Chooser) *Sched {
	startWatchdog()
	return &Sched{ch: ch, back: make(chan event), graceLeft: 250}
}

//go:norace
func (s *Sched) spawn(fn func()) *Task {
	t := &Task{ID: len(s.tasks), wake: make(chan int), s: s, opEnd: noLimit, segEnd: noLimit, next: noLimit}
	s.tasks = append(s.tasks, t)
	s.wg.Add(1)
	go s.body(t, fn)
	return t
}

func (s *Sched) body(t *Task, fn func()) {
	defer func() {
		// a task that outlived its first scheduler (see orphans) is accounted
		// for in the scheduler that adopted it
		if cs := t.sched(); cs != nil {
			cs.wg.Done()
		}
	}()
	defer func() { t.sched().finish(t) }()
	raceDisable()
	code := <-t.wake
	raceEnable()
	if code == 1 {
		func() {
			defer func() {
				if r := recover(); r != nil {
					if _, ok := r.(killedT); !ok {
						cs := t.sched()
						cs.mu.Lock()
						cs.Escaped = append(cs.Escaped, EscapedPanic{Task: t.ID, Root: t.ID < cs.nRoot && !t.isDetached(), Val: r})
						cs.mu.Unlock()
						cs.setCrashed()
					}
				}
			}()
			fn()
		}()
	}
}

//go:norace
func (t *Task) sched() *Sched { return t.s }

//go:norace
func (t *Task) isDetached() bool { return t.detached }

// Tasks that are still parked (blocked on a simulated primitive) when every
// root task of a run has finished are background goroutines of the code
// under test (a worker pool, say). They are not a deadlock: they stay parked
// and are adopted by the next scheduler of the process, like goroutines that
// live as long as the process.
var orphans []*Task

//go:norace
func (s *Sched) detach(t *Task) {
	t.detached = true
	t.s = nil
	orphans = append(orphans, t)
}

//go:norace
func (s *Sched) adopt() {
	for _, t := range orphans {
		t.s = s
		t.ID = len(s.tasks)
		s.tasks = append(s.tasks, t)
		s.wg.Add(1) // balanced by detach or by the task's end (see body)
	}
	orphans = orphans[:0]
}

// Orphans reports how many background tasks are parked between runs.
//
//go:norace
func Orphans() int { return len(orphans) }

// notify is called by the simulated primitives whenever something happened
// that can let a waiting task proceed (unlock, counter change, message sent
// or taken): all tasks count as runnable again, so that the chooser may hand
// the lock to the waiter before the releasing task runs on.
//
//go:norace
func notify() {
	t := cur
	if t == nil || t.s == nil {
		return
	}
	t.s.wake = true
}

//go:norace
func (s *Sched) clearBlocked() {
	for _, t := range s.tasks {
		t.blocked = false
	}
	s.wake = false
}

//go:norace
func (s *Sched) wakePending() bool { return s.wake }

//go:norace
func (s *Sched) setCrashed() { s.crashed = true }

//go:norace
func (s *Sched) isCrashed() bool { return s.crashed }

//go:norace
func (s *Sched) finish(t *Task) {
	t.done = true
	raceDisable()
	s.back <- event{task: t, why: WhyDone}
	raceEnable()
}

// handoff lets t run until it stops and returns the stop event.
//
//go:norace
func (s *Sched) handoff(t *Task, code int) event {
	cur = t
	progress++
	raceDisable()
	t.wake <- code
	ev := <-s.back
	raceEnable()
	cur = nil
	return ev
}

// Run executes the task functions to completion.
func (s *Sched) Run(fns []func()) {
	running.Add(1)
	defer running.Add(-1)
	s.nRoot = len(fns)
	for _, fn := range fns {
		s.spawn(fn)
	}
	s.adopt()
	var live []int
	var blk []bool
	for {
		// a close() of a real channel, a timer, an atomic flag: not everything
		// that unblocks a waiter goes through the primitives, so now and then
		// everybody is treated as runnable and polls its condition again
		s.sinceWake++
		if s.wakePending() || s.sinceWake >= 16 {
			s.clearBlocked()
			s.sinceWake = 0
		}
		live = live[:0]
		blk = blk[:0]
		allBlocked := true
		rootsLive := false
		for _, t := range s.tasks {
			if !t.isDone() {
				live = append(live, t.ID)
				b := t.isBlocked()
				blk = append(blk, b)
				if !b {
					allBlocked = false
				}
				if t.ID < s.nRoot && !t.isDetached() {
					rootsLive = true
				}
			}
		}
		if len(live) == 0 {
			break
		}
		if s.isCrashed() {
			// an unrecovered panic in a goroutine of the code under test ends the process
			s.killAll()
			break
		}
		if (s.MaxSegs > 0 && len(s.Trace) >= s.MaxSegs) || (s.MaxTotalSteps > 0 && s.totalSteps > s.MaxTotalSteps) {
			s.Aborted = true
			s.killAll()
			break
		}
		if allBlocked {
			// poll every blocked task once; if none makes progress it is a deadlock
			progressMade := false
			for _, id := range live {
				t := s.tasks[id]
				before := t.stepsNow()
				t.arm(maxSegment, 0)
				ev := s.handoff(t, 1)
				s.record(t, before, ev)
				// a polled task that passed any yield site did something
				// (took or delivered a message, got a lock) even if it is
				// blocked again now
				if ev.why != WhyBlocked || ev.task.stepsNow() != before {
					progressMade = true
					break
				}
			}
			if !progressMade && rootsLive && s.graceLeft > 0 {
				// channels fed by the Go runtime (timers, contexts) are not
				// under the simulator's control: give real time a chance
				// before calling it a deadlock
				s.graceLeft--
				time.Sleep(2 * time.Millisecond)
				continue
			}
			if !progressMade {
				if !rootsLive {
					// only background tasks are left, all parked: keep them for the next run
					for _, id := range live {
						s.detach(s.tasks[id])
						s.wg.Done()
					}
					break
				}
				s.Deadlock = true
				s.killAll()
				break
			}
			continue
		}
		id, steps, shared := s.ch.Next(live, blk)
		if id < 0 || id >= len(s.tasks) || s.tasks[id].isDone() {
			id = live[0]
		}
		t := s.tasks[id]
		before := t.stepsNow()
		if steps <= 0 || steps > maxSegment {
			steps = maxSegment // never unlimited: a task that loops forever must come back
		}
		t.arm(steps, shared)
		ev := s.handoff(t, 1)
		s.record(t, before, ev)
	}
	s.wg.Wait()
}

var debugTrace = os.Getenv("VSIM_TRACE") != ""

func (s *Sched) record(t *Task, before int64, ev event) {
	n := ev.task.stepsNow() - before
	s.totalSteps += n
	if debugTrace {
		fmt.Fprintf(os.Stderr, "seg task=%d steps=%d site=%d why=%d live=%d\n", t.ID, n, ev.site, ev.why, len(s.tasks))
	}
	s.Trace = append(s.Trace, Segment{Task: t.ID, Steps: n, Site: ev.site, Why: ev.why})
	if ev.why == WhySeg || ev.why == WhyShared {
		s.Switches++
		switch {
		case ev.site >= SitePrimBase:
			s.SwitchesShared++
		case ev.site >= SiteCallbackBase:
			s.SwitchesCb++
		case ev.site >= SiteDepBase:
			s.SwitchesDep++
		}
		if ev.why == WhyShared && ev.site < SiteCallbackBase {
			s.SwitchesShared++
		}
	}
}

func (s *Sched) killAll() {
	s.Killed = true
	for k := 0; k < s.numTasks(); k++ { // tasks spawned while unwinding are appended and seen too
		t := s.taskAt(k)
		for i := 0; !t.isDone() && i < 1000; i++ {
			s.handoff(t, 2)
		}
	}
}

//go:norace
func (s *Sched) numTasks() int { return len(s.tasks) }

//go:norace
func (s *Sched) taskAt(k int) *Task { return s.tasks[k] }

// Go starts fn as a child task of the running simulation (the instrumenter
// rewrites every go statement of the code under test into a call of Go).
// Outside simulation it starts a plain goroutine.
func Go(fn func()) {
	t := getCur()
	if t == nil {
		go fn()
		return
	}
	child := t.s.spawnFromTask(fn)
	t.addKid(child)
	t.yield(SitePrimBase+1, WhySpawn, child)
}

//go:norace
func (s *Sched) spawnFromTask(fn func()) *Task {
	// Only the running task executes this, and the scheduler goroutine is
	// parked in handoff meanwhile; the scheduler reads s.tasks only after the
	// WhySpawn event that follows.
	return s.spawn(fn)
}

// TaskSteps returns the number of yield sites each task passed.
func (s *Sched) TaskSteps() []int64 {
	out := make([]int64, len(s.tasks))
	for i, t := range s.tasks {
		out[i] = t.stepsNow()
	}
	return out
}

// Gosched replaces runtime.Gosched in the code under test: the task steps
// aside and counts as waiting until the scheduler comes back to it, so that a
// spin-wait lets the task it is waiting for run whatever the strategy.
func Gosched() {
	t := getCur()
	if t == nil {
		return
	}
	t.yield(SitePrimBase+28, WhyBlocked, nil)
}
