//go:build !race

package vsimrt

import "unsafe"

// RaceBuild reports whether the binary carries the race detector.
const RaceBuild = false

func raceDisable()                 {}
func raceEnable()                  {}
func raceAcquire(p unsafe.Pointer) {}
func raceRelease(p unsafe.Pointer) {}

// RaceErrors is the number of race reports printed so far by this process.
func RaceErrors() int { return 0 }
