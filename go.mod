module verif

go 1.25
